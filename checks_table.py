"""Per-property configuration of the driver (budgets, evidence texts)."""

COMMON_ASSUME = [
    "the simulated kernel (sim/src/kernel.rs) implements Linux pipe/poll/descriptor/process semantics as described in DESIGN.md 2.2; 21 micro-scenarios are compared with the real kernel on every run (conformance)",
    "interleaving at system-call granularity loses no behaviour: parent and children share only kernel objects",
    "child programs are closed scripts: a global deadlock is the library's",
]

PROPS = {
    "C01": dict(
        level="exploration",
        runs=dict(quick=24000, thorough=400000),
        rule="seeded plans of family comm: API x stream subset x child script (cat, amplifier, source/sink, closer, early exit, daemon holding stdout, random op mixes) x input/output sizes around pipe capacities x pipe capacities x scheduler personality; every 4th run with short I/O, stalls or child death; non-trivial = a pipe was completely full or poll reported >= 2 ready streams at once; distinct = distinct hash of the (entity, call, result-class) sequence Environment dimensions drawn per run: the parent starts with a random subset of its descriptors 0-2 closed (1 run in 6-8; the caller's files then take the lowest free numbers in half of those), and in faulty batches a signal handler of the application interrupts the parent's blocking poll/read/write/waitpid (EINTR) 1-3 times.",
        assumptions=COMMON_ASSUME,
        expect_probes=["pipe_was_full", "poll_multi_ready", "parent_epipe"],
    ),
    "C02": dict(
        level="exploration",
        runs=dict(quick=24000, thorough=400000),
        rule="family comm, alternating fault-free and faulty (short reads/writes at 5/30/90 %) batches; results compared with the kernel's per-pipe write history and the child's read log; non-trivial = a short transfer fired or both streams carried data beyond one chunk; distinct as C01 Environment dimensions drawn per run: the parent starts with a random subset of its descriptors 0-2 closed (1 run in 6-8; the caller's files then take the lowest free numbers in half of those), and in faulty batches a signal handler of the application interrupts the parent's blocking poll/read/write/waitpid (EINTR) 1-3 times.",
        assumptions=COMMON_ASSUME,
        expect_probes=["short_read", "short_write"],
    ),
    "C03": dict(
        level="exploration",
        runs=dict(quick=16000, thorough=300000),
        rule="family comm through Communicator with generated sequences of limit_size (1, 2, 4095, 4096, 4097, huge, random) and occasional limit_time; non-trivial = a limit cut a read while more data was buffered; distinct as C01 Environment dimensions drawn per run: the parent starts with a random subset of its descriptors 0-2 closed (1 run in 6-8; the caller's files then take the lowest free numbers in half of those), and in faulty batches a signal handler of the application interrupts the parent's blocking poll/read/write/waitpid (EINTR) 1-3 times.",
        assumptions=COMMON_ASSUME,
        expect_probes=["limit_cut_with_more_buffered"],
    ),
    "C04": dict(
        level="exploration",
        runs=dict(quick=24000, thorough=400000),
        rule="family comm through Communicator with generated limit_time sequences (0, sub-ms, ms..s, 2^31 ms +-1, 30 d, 400 d) against silent / trickling / flooding / stdin-closing children on the virtual clock; every 4th run with stalls, late timers, short I/O; non-trivial = the deadline passed while the read call was still issuing calls; distinct as C01 Environment dimensions drawn per run: the parent starts with a random subset of its descriptors 0-2 closed (1 run in 6-8; the caller's files then take the lowest free numbers in half of those), and in faulty batches a signal handler of the application interrupts the parent's blocking poll/read/write/waitpid (EINTR) 1-3 times.",
        assumptions=COMMON_ASSUME + ["the library's deadline is counted from its own first clock reading inside read(); a timeout is early if reported more than 1 ms before that"],
        expect_probes=["deadline_passed_inside_read", "timer_late", "stall"],
    ),
    "C05": dict(
        level="exploration",
        runs=dict(quick=100000, thorough=1500000),
        rule="family spawn: run index mod 125 enumerates the 5x5x5 assignments of {None, Pipe, File, RcFile, Merge} to (stdin, stdout, stderr) for the first spawn (variants: shared Rc, try_clone of the same description), 0-2 further random spawns on the same thread, via Popen::create or Exec; identity of open file descriptions at the child's fds 0/1/2 compared with the model; non-trivial = a program image was started or a refusal was observed; distinct as C01 Environment dimensions drawn per run: the parent starts with a random subset of its descriptors 0-2 closed (1 run in 6-8; the caller's files then take the lowest free numbers in half of those), and in faulty batches a signal handler of the application interrupts the parent's blocking poll/read/write/waitpid (EINTR) 1-3 times.",
        assumptions=COMMON_ASSUME,
        exhaustive_note="all 125 combinations are covered in every quick run (index mod 125)",
    ),
    "C06": dict(
        level="exploration",
        runs=dict(quick=80000, thorough=1200000),
        rule="family spawn: generated argument vectors (0-300 entries, arbitrary non-NUL bytes, up to 40 kB), executable override, env lists with duplicate keys, cwd present/absent/relative, setuid/setgid/setpgid combinations with the parent simulated as root or ordinary user, NUL injected in arguments/keys/values/executable; exec record (marshalled by the library in a really forked child) compared with the model; non-trivial = started or rejected with an OS error; distinct as C01",
        assumptions=COMMON_ASSUME + ["credential rules of setuid/setgid as in Appendix A (Linux)"],
        expect_probes=["nul_rejected"],
    ),
    "C07": dict(
        level="fault_enumeration",
        runs=dict(quick=102400, thorough=1638400),
        rule="family spawn: configuration = index/64 (streams, cwd, ids, detached, PATH search), injection point = index%64: no fault; k-th descriptor allocation (1..10); k-th fcntl(F_SETFD) (1..12); fork (EAGAIN/ENOMEM); each child-side step (chdir, dup2, setuid, setgid, setpgid) x errno table; exec candidate 0..3 x errno table; natural causes (missing, non-executable, directory, not a binary, bad cwd, refused identity change, unsearchable directory); second spawn failing while the first is alive; EINTR at the parent's blocking calls (launch-status read, waitpid) with the launch succeeding, failing, or detached; each configuration also with a random subset of the parent's descriptors 0-2 closed (1 run in 6); non-trivial = a fault fired or a natural failure cause was hit; distinct as C01",
        assumptions=COMMON_ASSUME + ["a failing close() is not injected (the property does not state behaviour under it)"],
        expect_probes=["alloc_fd_fail", "fcntl_fail", "fork_fail", "child_step_fail", "exec_errno"],
    ),
    "C08": dict(
        level="exploration",
        runs=dict(quick=16000, thorough=250000),
        rule="family spawn/pipeline: histories of 2-6 spawns with random stream configurations while earlier Popens and their pipe ends stay open; pipelines of 2-6 stages through capture/communicate/popen/adapters; every descriptor a child holds after exec is classified: an end of a pipe created inside a library call may only sit at the child's own fds 0/1/2 (a second descriptor for an own stream counts as a leak); consequences checked directly: the parent closing a child's stdin leaves no writer, a killed child leaves no writer on its output pipes, all children closing their fds 0-2 widows every library pipe the parent holds, Communicator::read() does not wait for a pipeline command that closed its streams and lingers for an hour; 1/4 of the spawn runs from 2-3 threads spawning concurrently; non-trivial = at least two children alive at an exec; distinct as C01 Environment dimensions drawn per run: the parent starts with a random subset of its descriptors 0-2 closed (1 run in 6-8; the caller's files then take the lowest free numbers in half of those), and in faulty batches a signal handler of the application interrupts the parent's blocking poll/read/write/waitpid (EINTR) 1-3 times.",
        assumptions=COMMON_ASSUME,
    ),
    "C09": dict(
        level="exploration",
        runs=dict(quick=100000, thorough=1500000),
        rule="family status: random histories (2-12) of poll/wait/wait_timeout/pid/exit_status/terminate/kill/send_signal/detach and harness-side time advances against a child ending with any exit code 0-255 or any fatal signal at a generated instant; one run in three with a foreign reaper and pid reuse (small pid range, bystander processes); non-trivial = the child ended inside a wait_timeout, a signal was delivered, or a foreign reap happened; distinct as C01 Environment dimensions drawn per run: the parent starts with a random subset of its descriptors 0-2 closed (1 run in 6-8; the caller's files then take the lowest free numbers in half of those), and in faulty batches a signal handler of the application interrupts the parent's blocking poll/read/write/waitpid (EINTR) 1-3 times.",
        assumptions=COMMON_ASSUME,
        expect_probes=["foreign_reap", "undetermined_after_foreign_reap", "child_exit_inside_wait_timeout"],
    ),
    "C10": dict(
        level="exploration",
        runs=dict(quick=100000, thorough=1500000),
        rule="family status (same histories as C09); oracle over the log of kill() calls: before the Popen has observed termination exactly one kill(child pid, requested signal) per call, after observation none and Ok; non-trivial as C09 Environment dimensions drawn per run: the parent starts with a random subset of its descriptors 0-2 closed (1 run in 6-8; the caller's files then take the lowest free numbers in half of those), and in faulty batches a signal handler of the application interrupts the parent's blocking poll/read/write/waitpid (EINTR) 1-3 times.",
        assumptions=COMMON_ASSUME + ["a signal sent to a pid that foreign code reaped before the Popen could know is not flagged (the property does not forbid it)"],
        expect_probes=["foreign_reap", "pid_reuse"],
    ),
    "C11": dict(
        level="exploration",
        runs=dict(quick=100000, thorough=1500000),
        rule="family status on the virtual clock: wait_timeout(d) with d in {0, sub-ms, ms, s, hours, 26 d, 8 weeks} x child exit before / inside a back-off interval / at the deadline / never; poll at random instants; every third run with late timers and stalls; non-trivial = wait_timeout(d>0) ran to its deadline or the child ended inside the call; distinct as C01",
        assumptions=COMMON_ASSUME + ["long timeouts without child exit are bounded to 10 min / 3 h in 1 of 97 runs so that the 100 ms back-off loop stays within the step budget; the thorough tier adds, every 40 000th index, one full wait_timeout of 26 days against a child that never exits (22 million back-off iterations)"],
        expect_probes=["child_exit_inside_wait_timeout", "timer_late", "stall"],
    ),
    "C12": dict(
        level="exploration",
        runs=dict(quick=8000, thorough=120000),
                rule="family drop: owner in {Popen (caller-releasable ends released first), join, capture, stream_stdout, stream_stderr, stream_stdin, pipeline adapters, pipeline join/capture} x child behaviour (exits early/late, reads to EOF, writes more than a pipe holds, unbounded writer) x drop point (nothing / part / everything consumed) x detached; non-trivial = a pipe was full, data was pending or a child was still alive at the drop; distinct as C01 Environment dimensions drawn per run: the parent starts with a random subset of its descriptors 0-2 closed (1 run in 6-8; the caller's files then take the lowest free numbers in half of those), and in faulty batches a signal handler of the application interrupts the parent's blocking poll/read/write/waitpid (EINTR) 1-3 times.",
        assumptions=COMMON_ASSUME,
    ),
    "C13": dict(
        level="exploration",
        runs=dict(quick=12000, thorough=200000),
                rule="family pipeline: 2-6 stages built as a|b|c, from_exec_iter, pipeline|pipeline, Pipeline::new|c; each stage a tagged non-commutative filter x -> 3x+tag that writes numbered stderr lines and exits with its own code; pipeline stdin in {inherit, pipe, data, file, null}, stdout in {inherit, pipe, file, null}, all terminators; non-trivial = more than 4 KiB flowed through or stderr lines were produced; distinct as C01 Environment dimensions drawn per run: the parent starts with a random subset of its descriptors 0-2 closed (1 run in 6-8; the caller's files then take the lowest free numbers in half of those), and in faulty batches a signal handler of the application interrupts the parent's blocking poll/read/write/waitpid (EINTR) 1-3 times.",
        assumptions=COMMON_ASSUME,
    ),
    "C14": dict(
        level="fault_enumeration",
        runs=dict(quick=32000, thorough=500000),
        rule="family pipeline with a failing stage k (every position): program missing, exec errno, fork failure, descriptor exhaustion at a random ordinal; x pipeline stdin kinds x every terminator x detached stages; earlier stages read stdin to EOF; non-trivial = the start-up really failed; distinct as C01",
        assumptions=COMMON_ASSUME,
        expect_probes=["pipeline_start_failed"],
    ),
    "C15": dict(
        level="exploration",
        runs=dict(quick=100000, thorough=1500000),
        rule="family spawn: simulated file system with 0-8 PATH entries (empty, duplicate, missing, unsearchable, very long, relative, a file), candidates executable / non-executable / directory / not-a-binary placed at random entries, names of length 1..255, names with a slash relative to the child's cwd, executable override, per-candidate injected exec errors; non-trivial = more than one candidate was tried or nothing could be started; distinct as C01",
        assumptions=COMMON_ASSUME,
        expect_probes=["path_search_all_failed", "path_search_skipped_candidates"],
    ),
    "C16": dict(
        level="exploration",
        runs=dict(quick=120000, thorough=2000000),
        rule="family builder: random sequences (0-14) of arg/args/env/env_extend/env_remove/env_clear/cwd/stdin/stdout/stderr/detached/clone followed by any terminator, checked against a plain record model (panic iff the model says refused; else exec record argv/env/cwd equal the model, for original and clone independently); no schedule or fault dimension (stated); non-trivial = at least three calls or a clone; distinct as C01",
        assumptions=COMMON_ASSUME + ["a piped stdin that nobody feeds (caller error) is not generated"],
    ),
    "C17": dict(
        level="exploration",
        runs=dict(quick=40000, thorough=600000),
        rule="family spawn with the counting allocator armed in the really forked child: command-name lengths 1..255, PATH of 0-11 entries with the longest at a random position, 0-40 arguments, 0-60 environment entries, cwd lengths 1..4000 across std's 384-byte stack buffer, all stream configurations, exec succeeding at candidate j or failing everywhere, injected child-step failures; every 4th run is a pipeline (every stage is judged); non-trivial = always (every run forks); distinct as C01",
        assumptions=COMMON_ASSUME + ["allocations made by harness code inside interposed calls are excluded by a depth flag"],
    ),
    "C18": dict(
        level="exploration",
        runs=dict(quick=40000, thorough=600000),
        rule="family spawn: spawning thread's mask in {empty, one signal, random subset, all blockable}, parent SIGPIPE in {ignored, default, handler}; exec record's mask and SIGPIPE disposition checked for every child, plus the consequence: a flooding child whose reader goes away must die of SIGPIPE; every 3rd run is a pipeline (every stage is judged; spawning threads inherit the mask); non-trivial = always; distinct as C01",
        assumptions=COMMON_ASSUME,
        expect_probes=["sigpipe_consequence_checked"],
    ),
}

TECH = "deterministic simulation with fault injection (seeded schedule/fault search over a simulated kernel, real library code)"

MANIFEST_TEXT = {
    "C01": dict(
        text="Seeded search over child I/O behaviours, sizes around pipe capacities, pipe capacities and parent/child interleavings; a hang is a detected state (global deadlock of the simulated kernel, or 1000 parent calls without kernel state change) with a replayable schedule, not a timeout. Sampling, not proof.",
        design_ref="DESIGN.md §5 C01",
        note="Trusts the simulated kernel's pipe/poll semantics (checked against the real kernel by the conformance self-test) and that scripts are closed. Every 5th run drives the thread-based (cfg(windows)) communicator extracted from the source by sim/build.rs, with simrt's rendezvous channel and threads as the only stubbed library-side dependency.",
        technique=TECH,
    ),
    "C02": dict(
        text="Every returned byte vector is compared with the kernel's own record of what was written to that pipe, and the child's stdin log with the supplied input, under short reads/writes injected into the parent's pipe I/O; EOF timing is checked at the parent's quiescent points.",
        design_ref="DESIGN.md §5 C02",
        note="Short writes <= PIPE_BUF on a blocking pipe are injected although Linux never produces them; the property asks for robustness against them. End-of-file on the child's stdin is checked whenever the parent blocks after the last input byte and whenever read() hands control back to the caller.",
        technique=TECH,
    ),
    "C03": dict(
        text="Generated sequences of size limits across successive reads against two concurrently written streams; per read the bound, across reads exact concatenation, and empty-means-EOF are checked against kernel state at the instant of return.",
        design_ref="DESIGN.md §5 C03",
        note="As C01. A quarter of the runs is a faulty batch in which only EINTR is injected (interrupted read/write/poll), no short transfers.",
        technique=TECH,
    ),
    "C04": dict(
        text="Virtual clock: deadlines from 0 to 400 days cost microseconds; flood/trickle/silent children placed by the scheduler; oracle counts parent calls after the deadline instant (<= 16) and checks that TimedOut is reported only when the limit has elapsed and never without a limit; resumption checked by concatenation.",
        design_ref="DESIGN.md §5 C04",
        note="Step-count bound instead of wall time; deadline counted from the library's first clock reading in the call.",
        technique=TECH,
    ),
    "C05": dict(text="All 125 redirection combinations are enumerated every run; what the child holds at fds 0/1/2 is compared by identity of the open file description (same pipe, same description, shared offset) - something text-arrives-somewhere tests cannot see; invalid combinations must be refused without a fork; any close/dup2/F_SETFD on the parent's fds 0-2 (also in thread-local destructors at thread exit) is flagged.", design_ref="DESIGN.md §5 C05", note="One run in four spawns from 1-3 short-lived threads that exit afterwards; one run in six starts the parent with a subset of its descriptors 0-2 closed. One run in five gives the parent non-blocking standard streams; file status flags are kept per open file description, so a change made by the forked child shows as a change of the parent's own stream. A standard descriptor the parent runs without must still be closed after a successful spawn.", technique=TECH),
    "C06": dict(text="The library's own marshalling runs in a really forked child; argv/envp/cwd/ids/pgid are read at the simulated exec boundary and compared with a model, including the credential rules that make the setuid/setgid order observable and NUL rejection.", design_ref="DESIGN.md §5 C06", note="Mostly a for-all-inputs property; the simulator contributes the observation point and credential semantics (stated in evidence). Windows format_env_block not covered. One run in five the parent's environment block holds a name twice and an entry without '=': with no environment specified the child must get that block entry by entry. NUL is placed in front, in the middle or as the last byte of an argument, an environment name or value, or the executable's name. One spawn in five starts a clone()/try_clone() of the configured command.", technique=TECH),
    "C07": dict(text="Every injection point (k-th descriptor allocation, k-th fcntl, fork, each child-side step, each exec candidate) is crossed with configurations and errno values; after each failed launch the process table, the parent's descriptor table and the returned errno are checked; Ok is accepted only if the simulated child has completed exec at the instant of return.", design_ref="DESIGN.md §5 C07", note="Enumeration is over ordinals up to fixed bounds (10 allocations, 12 fcntl calls, 6 child steps, 4 exec candidates) per configuration; configurations are sampled.", technique=TECH),
    "C08": dict(text="Descriptor tables of every child at exec are audited against the rule 'a library pipe end may only appear at the child's own fds 0/1/2', over histories with live siblings, over pipelines, and over spawns issued concurrently from several threads; end-of-file propagation is checked as a consequence.", design_ref="DESIGN.md §5 C08", note="One run in four spawns from 2-3 parent threads under the seeded scheduler (every interposed call is a switch point), which is what reaches the window between creating a pipe and forking; the consequences (end-of-file reaching either side whoever else is running) are checked directly as well. A third of the concurrent runs has one launch fail at exec; a forked child that sleeps between fork and exec keeps its copies of the parent's descriptors for that long and is not excused by the end-of-file judgement.", technique=TECH),
    "C09": dict(text="Random query/signal histories interleaved by the scheduler with the child's exit, foreign reaping and pid reuse; every reported status is compared with the kernel's truth at that instant and with earlier reports; the waitpid/kill log after the first report must be empty.", design_ref="DESIGN.md §5 C09", note="As C01. One run in six hands the Popen to another thread while the starting thread lives on (__WNOTHREAD modelled); one in six runs an executable whose file name holds blanks or parentheses, visible through the simulated /proc/<pid>/stat.", technique=TECH),
    "C10": dict(text="Audit of the kill() calls actually issued, per API call, against what the Popen had observed at that time; bystander processes with recycled pids make a stray signal visible.", design_ref="DESIGN.md §5 C10", note="As C09. A signal sent after a query of the same Popen has reaped the child counts as sent after observation even when that query reported nothing; one run in five a fatal signal takes 20 us - 300 ms to take effect (kill_lag). One history in twelve runs with the parent's descriptor table full after the start (raw pidfd_open counts as an allocation; syscall() by number is interposed and refuses process-directed calls with ENOSYS).", technique=TECH),
    "C11": dict(text="Virtual clock with injected timer lateness and stalls: early/late return of wait_timeout is judged against the deadline plus exactly the injected delay; poll must not block; the back-off loop must sleep between two status checks.", design_ref="DESIGN.md §5 C11", note="Timeouts of weeks are explored only when the child exits early, otherwise bounded (see evidence assumptions). One history in ten against a child that ends by itself spells 'no limit' as Duration::MAX. Durations just above 2^32 ms (where a 32-bit millisecond count starts over) against children that end by themselves.", technique=TECH),
    "C12": dict(text="Every owner kind x child behaviour x drop point; a drop that cannot finish is a detected global deadlock with a replayable schedule; the process table is audited after the handle is gone.", design_ref="DESIGN.md §5 C12", note="Plain Popen: caller-releasable ends are released first, as the property states. A third of the plain non-detached Popen runs use the handle (kill, terminate, poll, kill+wait, kill+poll) before dropping it, half of those with kill_lag: the child is doomed but not a zombie yet when kill() returns.", technique=TECH),
    "C13": dict(text="Non-commutative tagged filters make order, skipping and duplication of stages visible; stage wiring is also checked by pipe identity; stderr sink compared as a multiset of lines; exit status and reaping at return.", design_ref="DESIGN.md §5 C13", note="As C01. The from-an-iterator shape uses a lazy iterator (lower size bound 0) half of the time; a panic while composing is a violation. Chains of three or more commands are configured (input, output, error sink) before they are extended half of the time. Whenever input is configured (data of any length, pipe, null device) the first command must not be left on the parent's own stdin.", technique=TECH),
    "C14": dict(text="Every failing position x cause x terminator; the terminator must return the error without the simulated system deadlocking, no later fork, nothing left in the process or descriptor table.", design_ref="DESIGN.md §5 C14", note="As C07. A quarter of the runs has SIGTERM ignored in the parent (inherited by every command), one in eight has kill() refused once: cleaning up must not depend on signals.", technique=TECH),
    "C15": dict(text="Generated PATH shapes over a simulated file system with per-candidate exec errors; the image that ran and the candidates tried (recorded in the forked child) are compared with the model's first startable candidate in PATH order.", design_ref="DESIGN.md §5 C15", note="Schedule-free; the fault dimension is the errno sequence of the retry loop. For relative names with a slash a file of the same name may sit under the parent's cwd as well, or only there (realpath is interposed).", technique=TECH),
    "C16": dict(text="Model-based checking of builder call histories (plain record model) with the exec record as observation; claimed with the caveat that there is no schedule or fault dimension.", design_ref="DESIGN.md §5 C16", note="Pure history/model check riding on the simulator. A quarter of the histories has the program change its own environment between builder calls or between building and running; the copy the edits act on may be taken at the first edit or at run time - both are accepted - but what was set or removed on the builder must hold under either.", technique="model-based history checking on the simulator's exec-boundary observation (seeded call sequences; no schedule/fault dimension)"),
    "C17": dict(text="The worker's global allocator counts allocations in the really forked child between fork returning 0 and exec/_exit, across sizes that cross std's internal stack-buffer thresholds, on success and failure paths.", design_ref="DESIGN.md §5 C17", note="Counts allocations of the Rust global allocator; libc-internal malloc calls (none on these paths) would not be seen. PATH shapes include empty entries and PATHs of nothing but separators. A quarter of the runs request setuid, a quarter setgid (so a sixteenth both); setgroups is interposed.", technique=TECH),
    "C18": dict(text="Exec records must show an empty mask and default SIGPIPE for every parent mask/disposition configuration; the consequence (producer dies on a closed pipe) is checked where it happens.", design_ref="DESIGN.md §5 C18", note="As C01. A quarter of the non-builder spawns request a process group of their own.", technique=TECH),
}

NOT_APPLICABLE = [
    {"property_id": "C19", "reason": "display_escape/to_cmdline_lossy are pure functions of their arguments: no schedule, clock, fault, I/O or shared state for a simulator to control (needs input generation against a real sh, i.e. property-based testing, a different technique)"},
    {"property_id": "C20", "reason": "assemble_cmdline/append_quoted are pure functions (and cfg(windows)): nothing for deterministic simulation to schedule or fault"},
]

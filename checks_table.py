"""Per-property configuration of the driver (budgets, evidence texts)."""

COMMON_ASSUME = [
    "the simulated kernel (sim/src/kernel.rs) implements Linux pipe/poll/descriptor/process semantics as listed in DESIGN.md Appendix A",
    "interleaving at system-call granularity loses no behaviour: parent and children share only kernel objects",
    "child programs are closed scripts: a global deadlock is the library's",
]

PROPS = {
    "C01": dict(
        level="exploration",
        runs=dict(quick=24000, thorough=400000),
        rule="seeded plans of family comm: API x stream subset x child script (cat, amplifier, source/sink, closer, early exit, daemon holding stdout, random op mixes) x input/output sizes around pipe capacities x pipe capacities x scheduler personality; every 4th run with short I/O, stalls or child death; non-trivial = a pipe was completely full or poll reported >= 2 ready streams at once; distinct = distinct hash of the (entity, call, result-class) sequence",
        assumptions=COMMON_ASSUME,
        expect_probes=["pipe_was_full", "poll_multi_ready", "parent_epipe"],
    ),
    "C02": dict(
        level="exploration",
        runs=dict(quick=24000, thorough=400000),
        rule="family comm, alternating fault-free and faulty (short reads/writes at 5/30/90 %) batches; results compared with the kernel's per-pipe write history and the child's read log; non-trivial = a short transfer fired or both streams carried data beyond one chunk; distinct as C01",
        assumptions=COMMON_ASSUME,
        expect_probes=["short_read", "short_write"],
    ),
    "C03": dict(
        level="exploration",
        runs=dict(quick=16000, thorough=250000),
        rule="family comm through Communicator with generated sequences of limit_size (1, 2, 4095, 4096, 4097, huge, random) and occasional limit_time; non-trivial = a limit cut a read while more data was buffered; distinct as C01",
        assumptions=COMMON_ASSUME,
        expect_probes=["limit_cut_with_more_buffered"],
    ),
    "C04": dict(
        level="exploration",
        runs=dict(quick=24000, thorough=400000),
        rule="family comm through Communicator with generated limit_time sequences (0, sub-ms, ms..s, 2^31 ms +-1, 30 d, 400 d) against silent / trickling / flooding / stdin-closing children on the virtual clock; every 4th run with stalls, late timers, short I/O; non-trivial = the deadline passed while the read call was still issuing calls; distinct as C01",
        assumptions=COMMON_ASSUME + ["the library's deadline is counted from its own first clock reading inside read(); a timeout is early if reported more than 1 ms before that"],
        expect_probes=["deadline_passed_inside_read", "timer_late", "stall"],
    ),
}

TECH = "deterministic simulation with fault injection (seeded schedule/fault search over a simulated kernel, real library code)"

MANIFEST_TEXT = {
    "C01": dict(
        text="Seeded search over child I/O behaviours, sizes around pipe capacities, pipe capacities and parent/child interleavings; a hang is a detected state (global deadlock of the simulated kernel, or 1000 parent calls without kernel state change) with a replayable schedule, not a timeout. Sampling, not proof.",
        design_ref="DESIGN.md §5 C01",
        note="Trusts the simulated kernel's pipe/poll semantics (checked against the real kernel by the conformance self-test) and that scripts are closed. The Windows thread-based communicator is covered only if the commT family is listed in DESIGN §5.",
        technique=TECH,
    ),
    "C02": dict(
        text="Every returned byte vector is compared with the kernel's own record of what was written to that pipe, and the child's stdin log with the supplied input, under short reads/writes injected into the parent's pipe I/O; EOF timing is checked at the parent's quiescent points.",
        design_ref="DESIGN.md §5 C02",
        note="Short writes <= PIPE_BUF on a blocking pipe are injected although Linux never produces them; the property asks for robustness against them.",
        technique=TECH,
    ),
    "C03": dict(
        text="Generated sequences of size limits across successive reads against two concurrently written streams; per read the bound, across reads exact concatenation, and empty-means-EOF are checked against kernel state at the instant of return.",
        design_ref="DESIGN.md §5 C03",
        note="As C01.",
        technique=TECH,
    ),
    "C04": dict(
        text="Virtual clock: deadlines from 0 to 400 days cost microseconds; flood/trickle/silent children placed by the scheduler; oracle counts parent calls after the deadline instant (<= 16) and checks that TimedOut is reported only when the limit has elapsed and never without a limit; resumption checked by concatenation.",
        design_ref="DESIGN.md §5 C04",
        note="Step-count bound instead of wall time; deadline counted from the library's first clock reading in the call.",
        technique=TECH,
    ),
}

NOT_APPLICABLE = [
    {"property_id": "C19", "reason": "display_escape/to_cmdline_lossy are pure functions of their arguments: no schedule, clock, fault, I/O or shared state for a simulator to control (needs input generation against a real sh, i.e. property-based testing, a different technique)"},
    {"property_id": "C20", "reason": "assemble_cmdline/append_quoted are pure functions (and cfg(windows)): nothing for deterministic simulation to schedule or fault"},
]

//! Real-kernel demonstration: the forked child must not allocate between
//! fork() and exec() when `PopenConfig::cwd` is set.
//!
//! The test binary installs a global allocator that wraps `System`.  The
//! wrapper compares `getpid()` with the pid recorded by the test process; if
//! they differ we are running in a forked child that has not exec'd yet, and
//! every alloc / alloc_zeroed / realloc is reported by writing a 9-byte
//! record (kind + requested size) to a pipe that was opened before the spawn
//! and is therefore inherited by the child.  After `Popen::create` returns
//! (which it only does once the child has exec'd or failed to), the parent
//! drains the pipe: it must be empty.
//!
//! Run with: cargo test --offline --test real_demo -- --test-threads=1

#![cfg(unix)]

use std::alloc::{GlobalAlloc, Layout, System};
use std::ffi::OsString;
use std::fs;
use std::path::{Path, PathBuf};
use std::sync::atomic::{AtomicI32, Ordering};
use std::sync::{Mutex, MutexGuard};

use subprocess::{ExitStatus, Popen, PopenConfig, Redirection};

// ---------------------------------------------------------------------------
// Allocation spy
// ---------------------------------------------------------------------------

/// Pid of the test process; 0 while the spy is disarmed.
static PARENT_PID: AtomicI32 = AtomicI32::new(0);
/// Write end of the report pipe; -1 while the spy is disarmed.
static REPORT_FD: AtomicI32 = AtomicI32::new(-1);

const RECORD_LEN: usize = 9;

struct ForkSpy;

#[inline]
fn report(kind: u8, size: usize) {
    let parent = PARENT_PID.load(Ordering::Relaxed);
    if parent == 0 {
        return;
    }
    // getpid() is a plain system call on Linux (glibc >= 2.25 does not cache
    // it), async-signal-safe, and does not allocate.
    if unsafe { libc::getpid() } == parent {
        return;
    }
    let fd = REPORT_FD.load(Ordering::Relaxed);
    if fd < 0 {
        return;
    }
    let mut rec = [0u8; RECORD_LEN];
    rec[0] = kind;
    rec[1..].copy_from_slice(&(size as u64).to_le_bytes());
    // The pipe is non-blocking and the record is far below PIPE_BUF, so the
    // write is atomic and never blocks the child.
    unsafe {
        libc::write(fd, rec.as_ptr() as *const libc::c_void, RECORD_LEN);
    }
}

unsafe impl GlobalAlloc for ForkSpy {
    unsafe fn alloc(&self, layout: Layout) -> *mut u8 {
        report(b'a', layout.size());
        System.alloc(layout)
    }
    unsafe fn alloc_zeroed(&self, layout: Layout) -> *mut u8 {
        report(b'z', layout.size());
        System.alloc_zeroed(layout)
    }
    unsafe fn realloc(&self, ptr: *mut u8, layout: Layout, new_size: usize) -> *mut u8 {
        report(b'r', new_size);
        System.realloc(ptr, layout, new_size)
    }
    unsafe fn dealloc(&self, ptr: *mut u8, layout: Layout) {
        System.dealloc(ptr, layout)
    }
}

#[global_allocator]
static GLOBAL: ForkSpy = ForkSpy;

/// Serializes the tests (the spy state is global) even if somebody forgets
/// `--test-threads=1`.
static SERIAL: Mutex<()> = Mutex::new(());

/// One allocation observed in the forked child.
#[derive(Debug, PartialEq, Eq)]
struct ChildAlloc {
    kind: char,
    size: u64,
}

/// Armed spy: owns the report pipe.
struct Spy {
    read_fd: i32,
    write_fd: i32,
    _guard: MutexGuard<'static, ()>,
}

impl Spy {
    fn arm() -> Spy {
        let guard = SERIAL.lock().unwrap_or_else(|e| e.into_inner());
        let mut fds = [0i32; 2];
        // Both ends non-blocking; close-on-exec so that the exec'd program
        // does not keep them (fork still duplicates them into the child,
        // which is all we need).
        let rc = unsafe { libc::pipe2(fds.as_mut_ptr(), libc::O_NONBLOCK | libc::O_CLOEXEC) };
        assert_eq!(rc, 0, "pipe2 failed");
        REPORT_FD.store(fds[1], Ordering::SeqCst);
        PARENT_PID.store(unsafe { libc::getpid() }, Ordering::SeqCst);
        Spy {
            read_fd: fds[0],
            write_fd: fds[1],
            _guard: guard,
        }
    }

    /// Disarm the spy and return everything the children reported.
    fn finish(self) -> Vec<ChildAlloc> {
        PARENT_PID.store(0, Ordering::SeqCst);
        REPORT_FD.store(-1, Ordering::SeqCst);
        let mut out = Vec::new();
        let mut buf = [0u8; RECORD_LEN * 64];
        loop {
            let n = unsafe {
                libc::read(
                    self.read_fd,
                    buf.as_mut_ptr() as *mut libc::c_void,
                    buf.len(),
                )
            };
            if n <= 0 {
                break; // EAGAIN: pipe is empty
            }
            let n = n as usize;
            assert_eq!(n % RECORD_LEN, 0, "torn record in report pipe");
            for rec in buf[..n].chunks(RECORD_LEN) {
                let mut sz = [0u8; 8];
                sz.copy_from_slice(&rec[1..]);
                out.push(ChildAlloc {
                    kind: rec[0] as char,
                    size: u64::from_le_bytes(sz),
                });
            }
        }
        out
    }
}

impl Drop for Spy {
    fn drop(&mut self) {
        PARENT_PID.store(0, Ordering::SeqCst);
        REPORT_FD.store(-1, Ordering::SeqCst);
        unsafe {
            libc::close(self.read_fd);
            libc::close(self.write_fd);
        }
    }
}

// ---------------------------------------------------------------------------
// Helpers
// ---------------------------------------------------------------------------

/// Create a real directory under `base` whose absolute path is at least
/// `min_len` bytes long (several components, each below NAME_MAX).
fn make_long_dir(base: &Path, min_len: usize) -> PathBuf {
    let mut dir = base.to_path_buf();
    let mut i = 0;
    while dir.as_os_str().len() < min_len {
        let c = (b'a' + (i % 26) as u8) as char;
        let component: String = std::iter::repeat(c).take(100).collect();
        dir.push(component);
        i += 1;
    }
    fs::create_dir_all(&dir).expect("create long directory");
    dir
}

/// Spawn `/bin/pwd` with the given cwd under the spy.  Returns the directory
/// the child printed and the allocations the forked child performed before
/// exec.
fn spawn_pwd(cwd: Option<&Path>) -> (PathBuf, Vec<ChildAlloc>) {
    // Everything the parent needs is built before the spy is armed, though
    // parent-side allocations are ignored anyway.
    let argv: Vec<OsString> = vec!["/bin/pwd".into(), "-P".into()];
    let config = PopenConfig {
        stdout: Redirection::Pipe,
        cwd: cwd.map(|p| p.as_os_str().to_owned()),
        ..Default::default()
    };

    let spy = Spy::arm();
    let result = Popen::create(&argv, config);
    // Popen::create returns only after the child has exec'd (its
    // close-on-exec error pipe reached EOF), so all pre-exec activity of the
    // child is already in the report pipe.
    let allocs = spy.finish();

    let mut p = result.expect("Popen::create");
    let (out, _err) = p.communicate(None).expect("communicate");
    let status = p.wait().expect("wait");
    assert_eq!(status, ExitStatus::Exited(0), "pwd failed");
    let out = out.expect("stdout captured");
    (PathBuf::from(out.trim_end_matches('\n')), allocs)
}

// ---------------------------------------------------------------------------
// Tests
// ---------------------------------------------------------------------------

/// Sanity check of the instrument itself: an allocation made in a forked
/// child (plain libc::fork, no library involved) is reported, and parent-side
/// allocations are not.
#[test]
fn spy_detects_allocation_in_forked_child() {
    let spy = Spy::arm();
    let parent_side = vec![1u8; 1000]; // must not be reported
    let pid = unsafe { libc::fork() };
    assert!(pid >= 0, "fork failed");
    if pid == 0 {
        let v: Vec<u8> = Vec::with_capacity(777);
        std::hint::black_box(&v);
        unsafe { libc::_exit(0) };
    }
    let mut status = 0;
    assert_eq!(unsafe { libc::waitpid(pid, &mut status, 0) }, pid);
    let allocs = spy.finish();
    drop(parent_side);
    assert_eq!(
        allocs,
        vec![ChildAlloc {
            kind: 'a',
            size: 777
        }]
    );
}

/// Control: no cwd at all.  Passes with and without the defect.
#[test]
fn control_no_cwd_child_does_not_allocate() {
    let (_dir, allocs) = spawn_pwd(None);
    assert!(
        allocs.is_empty(),
        "forked child allocated before exec: {:?}",
        allocs
    );
}

/// Control: short cwd.  With the defect, `env::set_current_dir` converts
/// paths shorter than 384 bytes on the stack, so this passes both ways.
#[test]
fn control_short_cwd_child_does_not_allocate() {
    let tmp = tempfile::tempdir().unwrap();
    let dir = fs::canonicalize(tmp.path()).unwrap();
    assert!(dir.as_os_str().len() < 200);
    let (printed, allocs) = spawn_pwd(Some(&dir));
    assert_eq!(printed, dir);
    assert!(
        allocs.is_empty(),
        "forked child allocated before exec: {:?}",
        allocs
    );
}

/// Control: a cwd just below the 384-byte threshold (383 bytes + NUL fits the
/// stack buffer of std).  Passes both ways.
#[test]
fn control_cwd_just_below_threshold_child_does_not_allocate() {
    let tmp = tempfile::tempdir().unwrap();
    let base = fs::canonicalize(tmp.path()).unwrap();
    // base / 100 x 'a' / 100 x 'b' / filler  ==> exactly 383 bytes
    let mut dir = make_long_dir(&base, base.as_os_str().len() + 202);
    let missing = 383 - dir.as_os_str().len() - 1;
    assert!(missing > 0 && missing < 255);
    dir.push(std::iter::repeat('x').take(missing).collect::<String>());
    fs::create_dir_all(&dir).unwrap();
    assert_eq!(dir.as_os_str().len(), 383);

    let (printed, allocs) = spawn_pwd(Some(&dir));
    assert_eq!(printed, dir);
    assert!(
        allocs.is_empty(),
        "forked child allocated before exec: {:?}",
        allocs
    );
}

/// The defect: a cwd of 384 bytes or more.  With the defect the child calls
/// `env::set_current_dir`, which builds a heap `CString` for such paths -
/// between fork() and exec().
#[test]
fn long_cwd_child_does_not_allocate() {
    let tmp = tempfile::tempdir().unwrap();
    let base = fs::canonicalize(tmp.path()).unwrap();
    let dir = make_long_dir(&base, 600);
    assert!(dir.as_os_str().len() >= 600);

    let (printed, allocs) = spawn_pwd(Some(&dir));
    // The child really ran in the long directory (both ways).
    assert_eq!(printed, dir);
    assert!(
        allocs.is_empty(),
        "forked child allocated before exec (cwd is {} bytes): {:?}",
        dir.as_os_str().len(),
        allocs
    );
}

/// Same at the exact threshold: 384 bytes is the first length that no longer
/// fits std's stack buffer.
#[test]
fn cwd_at_threshold_child_does_not_allocate() {
    let tmp = tempfile::tempdir().unwrap();
    let base = fs::canonicalize(tmp.path()).unwrap();
    let mut dir = make_long_dir(&base, base.as_os_str().len() + 202);
    let missing = 384 - dir.as_os_str().len() - 1;
    assert!(missing > 0 && missing < 255);
    dir.push(std::iter::repeat('x').take(missing).collect::<String>());
    fs::create_dir_all(&dir).unwrap();
    assert_eq!(dir.as_os_str().len(), 384);

    let (printed, allocs) = spawn_pwd(Some(&dir));
    assert_eq!(printed, dir);
    assert!(
        allocs.is_empty(),
        "forked child allocated before exec (cwd is {} bytes): {:?}",
        dir.as_os_str().len(),
        allocs
    );
}

//! Real-kernel demonstration: privilege drop with both `setuid` and `setgid`.
//!
//! When root asks for a child that runs as an ordinary user *and* an ordinary
//! group, the child must call setgid() before setuid().  In the other order
//! setuid() drops CAP_SETGID, the following setgid() fails with EPERM, and
//! the process cannot be started at all.
//!
//! These tests need to run as root (uid 0), because only root may change
//! to an arbitrary uid/gid.

#![cfg(unix)]

extern crate libc;
extern crate subprocess;

use std::io::Read;

use subprocess::{Exec, ExecExt, Popen, PopenConfig, PopenError, Redirection};

/// "nobody"/"nogroup": an ordinary, unprivileged uid and gid.
const UID: u32 = 65534;
const GID: u32 = 65534;

fn require_root() {
    let euid = unsafe { libc::geteuid() };
    assert_eq!(
        euid, 0,
        "this demonstration must run as root (euid is {})",
        euid
    );
}

fn describe(err: &PopenError) -> String {
    match err {
        PopenError::IoError(e) => format!(
            "IoError {:?} (raw_os_error = {:?}, EPERM = {})",
            e,
            e.raw_os_error(),
            libc::EPERM
        ),
        other => format!("{:?}", other),
    }
}

/// Control: each knob on its own works for root, so the environment really
/// does permit changing to uid/gid 65534.  Passes with and without the defect.
#[test]
fn control_single_drop_works() {
    require_root();

    let out = Exec::cmd("id")
        .arg("-u")
        .setuid(UID)
        .capture()
        .expect("setuid alone must work for root");
    assert!(out.success());
    assert_eq!(out.stdout_str().trim(), UID.to_string());

    let out = Exec::cmd("id")
        .arg("-g")
        .setgid(GID)
        .capture()
        .expect("setgid alone must work for root");
    assert!(out.success());
    assert_eq!(out.stdout_str().trim(), GID.to_string());
}

/// Builder API: root drops to uid 65534 and gid 65534 in one go.
#[test]
fn exec_drop_uid_and_gid() {
    require_root();

    let result = Exec::cmd("sh")
        .arg("-c")
        .arg("echo \"$(id -u):$(id -g)\"")
        .setuid(UID)
        .setgid(GID)
        .capture();

    let out = match result {
        Ok(out) => out,
        Err(e) => panic!(
            "child with setuid({}) + setgid({}) could not be started: {}",
            UID,
            GID,
            describe(&e)
        ),
    };
    assert!(out.success(), "exit status {:?}", out.exit_status);
    assert_eq!(out.stdout_str().trim(), format!("{}:{}", UID, GID));
}

/// Low-level API: the same request through `PopenConfig`.
#[test]
fn popen_drop_uid_and_gid() {
    require_root();

    let result = Popen::create(
        &["id", "-g"],
        PopenConfig {
            stdout: Redirection::Pipe,
            setuid: Some(UID),
            setgid: Some(GID),
            ..Default::default()
        },
    );

    let mut p = match result {
        Ok(p) => p,
        Err(e) => panic!(
            "Popen::create with setuid + setgid failed: {}",
            describe(&e)
        ),
    };
    let mut s = String::new();
    p.stdout.take().unwrap().read_to_string(&mut s).unwrap();
    assert!(p.wait().unwrap().success());
    assert_eq!(s.trim(), GID.to_string());
}

/// The drop must be complete and irreversible: the real, effective and saved
/// ids all end up as the requested ones.  /proc/self/status (of `grep`, which
/// inherits the credentials of the child shell) lists real, effective, saved
/// and filesystem ids on each line.
#[test]
fn drop_is_complete() {
    require_root();

    let result = Exec::cmd("sh")
        .arg("-c")
        .arg("grep -E '^(Uid|Gid):' /proc/self/status")
        .setuid(UID)
        .setgid(GID)
        .capture();

    let out = match result {
        Ok(out) => out,
        Err(e) => panic!(
            "child with setuid + setgid could not be started: {}",
            describe(&e)
        ),
    };
    assert!(out.success());
    let text = out.stdout_str();
    let mut seen = 0;
    for line in text.lines() {
        let mut it = line.split_whitespace();
        let key = it.next().unwrap();
        let ids: Vec<&str> = it.collect();
        let want = match key {
            "Uid:" => UID.to_string(),
            "Gid:" => GID.to_string(),
            _ => continue,
        };
        assert_eq!(ids.len(), 4, "unexpected line {:?}", line);
        for id in &ids {
            assert_eq!(*id, want, "line {:?}", line);
        }
        seen += 1;
    }
    assert_eq!(seen, 2, "status output: {:?}", text);
}

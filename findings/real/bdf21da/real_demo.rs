//! Real-kernel demonstration: `Pipeline::capture()` / `Pipeline::communicate()`
//! must not leak the read end of the combined-stderr capture pipe into the
//! commands of the pipeline.
//!
//! Run with: cargo test --offline --test real_demo -- --test-threads=1
#![cfg(unix)]

use std::fs;
use std::path::Path;
use std::time::{Duration, Instant};

use subprocess::{Exec, NullFile};

/// Shell snippet that lists every descriptor open in the shell itself, one
/// per line, prefixed with a tag.  `$$` is the pid of the `sh` that was exec'ed
/// by the library, so this is exactly the descriptor table the library handed
/// to the command (the descriptors of the `ls` child are not listed).  A line
/// looks like:
///
///   first lr-x------ 1 root root 64 Oct  3 22:34 3 -> pipe:[25290803]
///
/// The permission bits of the /proc/PID/fd symlink tell the access mode of
/// the descriptor: `lr-x` is a read end, `l-wx` a write end.
fn lister(tag: &str, to_stderr: bool) -> String {
    format!(
        "ls -l /proc/$$/fd | while read -r line; do echo \"{} $line\"{}; done",
        tag,
        if to_stderr { " >&2" } else { "" }
    )
}

#[derive(Debug)]
struct FdEntry {
    fd: u32,
    readable: bool,
    writable: bool,
    target: String,
}

fn parse(listing: &str, tag: &str) -> Vec<FdEntry> {
    listing
        .lines()
        .filter_map(|l| {
            let l = l.strip_prefix(tag)?.trim_start();
            let (left, target) = l.split_once(" -> ")?;
            let mode = left.split_whitespace().next()?;
            let fd = left.split_whitespace().last()?.parse().ok()?;
            let mode = mode.as_bytes();
            Some(FdEntry {
                fd,
                readable: mode.get(1) == Some(&b'r'),
                writable: mode.get(2) == Some(&b'w'),
                target: target.to_string(),
            })
        })
        .collect()
}

/// Descriptors above 2 that are READ ends of the pipe that is the command's
/// stderr, i.e. of the pipe created by capture() for the combined stderr.
/// The only legitimate holder of that read end is the parent.
fn leaked(entries: &[FdEntry]) -> Vec<&FdEntry> {
    let stderr = entries
        .iter()
        .find(|e| e.fd == 2)
        .expect("command has no fd 2?");
    assert!(
        stderr.target.starts_with("pipe:[") && stderr.writable && !stderr.readable,
        "stderr of the command should be the write end of the capture pipe, got {:?}",
        stderr
    );
    entries
        .iter()
        .filter(|e| e.fd > 2 && e.readable && e.target == stderr.target)
        .collect()
}

/// Each command of a captured pipeline lists its own descriptors.  The only
/// descriptor referring to the stderr capture pipe must be fd 2 (the write
/// end) or another write end.  With the defect, the read end shows up as an
/// extra read-only descriptor > 2 that points to the very same pipe inode as
/// fd 2.
#[test]
fn capture_does_not_leak_stderr_pipe_into_commands() {
    let first = Exec::cmd("sh").arg("-c").arg(lister("first", true));
    // `cat >/dev/null` drains the (empty) stdout of the first command, then
    // the listing goes to the captured stdout of the pipeline.
    let last = Exec::cmd("sh")
        .arg("-c")
        .arg(format!("cat >/dev/null; {}", lister("last", false)));

    let data = (first | last).capture().expect("capture failed");
    assert!(data.exit_status.success());
    let out = data.stdout_str();
    let err = data.stderr_str();
    eprintln!("--- stderr of pipeline (first command's fds):\n{}", err);
    eprintln!("--- stdout of pipeline (last command's fds):\n{}", out);

    let first_fds = parse(&err, "first");
    let last_fds = parse(&out, "last");
    assert!(first_fds.len() >= 3, "listing of first command incomplete");
    assert!(last_fds.len() >= 3, "listing of last command incomplete");

    let leak_first = leaked(&first_fds);
    let leak_last = leaked(&last_fds);
    assert!(
        leak_first.is_empty() && leak_last.is_empty(),
        "commands inherited the read end of the stderr capture pipe: first command: {:?}, last command: {:?}",
        leak_first,
        leak_last
    );
}

fn wait_for_file(path: &Path, timeout: Duration) -> String {
    let deadline = Instant::now() + timeout;
    loop {
        if let Ok(s) = fs::read_to_string(path) {
            if s.ends_with('\n') {
                return s;
            }
        }
        assert!(
            Instant::now() < deadline,
            "timed out waiting for {}",
            path.display()
        );
        std::thread::sleep(Duration::from_millis(20));
    }
}

/// Observable consequence of the leak: once the parent has dropped the
/// Communicator (closing the only legitimate read end of the stderr pipe), a
/// command that writes to its stderr must get EPIPE/SIGPIPE.  With the defect
/// the commands themselves hold read ends of that pipe, so the pipe never
/// becomes "widowed" and the write silently succeeds.
#[test]
fn stderr_pipe_is_widowed_when_communicator_is_dropped() {
    let dir = tempfile::tempdir().unwrap();
    let go = dir.path().join("go");
    let result = dir.path().join("result");

    // The write happens in a subshell so that death by SIGPIPE (if SIGPIPE is
    // at its default disposition) is reported as status 141 rather than
    // killing the reporter; if SIGPIPE is ignored, echo fails with EPIPE and
    // the status is non-zero as well.  Only a successful write gives 0.
    let script = format!(
        "while [ ! -e '{go}' ]; do sleep 0.05; done; \
         (echo hello >&2); echo $? > '{res}.tmp'; mv '{res}.tmp' '{res}'",
        go = go.display(),
        res = result.display()
    );
    let first = Exec::cmd("sh").arg("-c").arg(script);
    let last = Exec::cmd("cat");

    let comm = (first | last)
        .stdin(NullFile)
        .communicate()
        .expect("communicate failed");
    // Close the parent's ends: stdout read end and stderr read end.
    drop(comm);
    // Only now let the command write to its stderr.
    fs::write(&go, b"").unwrap();

    let status = wait_for_file(&result, Duration::from_secs(10));
    let status: i32 = status.trim().parse().expect("bad status");
    eprintln!("status of `echo hello >&2` after reader went away: {}", status);
    assert_ne!(
        status, 0,
        "write to the stderr pipe succeeded although the parent closed its read end: \
         some command still holds a leaked read end of the capture pipe"
    );
}

//! Real-kernel demonstration: `Pipeline::capture()` must return the error of
//! a command that cannot be started even when an earlier command of the
//! pipeline has written more to its standard error than a pipe can hold.
//!
//! With the defect, the commands started so far are waited for while the
//! parent still holds (and no longer reads) the read end of the pipe that
//! collects their standard error.  A command that writes more than the pipe
//! capacity (64 KiB on Linux) to its stderr blocks in write() forever, so the
//! wait - and therefore capture() - never returns.
//!
//! Each test runs capture() in a helper thread and watches it from the test
//! thread.  If the call has not returned after WATCHDOG, the writer children
//! (whose pids were recorded in a temporary directory) are killed, which
//! unblocks the stuck wait, and the test fails.

#![cfg(unix)]

use std::fs;
use std::path::{Path, PathBuf};
use std::sync::mpsc;
use std::thread;
use std::time::{Duration, Instant};

use subprocess::{Exec, Pipeline, PopenError};

const WATCHDOG: Duration = Duration::from_secs(10);
const MISSING: &str = "/nonexistent/real-demo-no-such-command";

/// A command that records its pid in `dir/<name>`, then turns into `head`
/// writing `nbytes` zero bytes to its standard error.  Its stdin and stdout
/// are left alone.
fn noisy(dir: &Path, name: &str, nbytes: usize) -> Exec {
    let script = format!(
        "echo $$ > '{}/{}'; exec head -c {} /dev/zero >&2",
        dir.display(),
        name,
        nbytes
    );
    Exec::cmd("sh").arg("-c").arg(script)
}

fn recorded_pids(dir: &Path) -> Vec<i32> {
    let mut pids = vec![];
    if let Ok(entries) = fs::read_dir(dir) {
        for entry in entries.flatten() {
            if let Ok(s) = fs::read_to_string(entry.path()) {
                if let Ok(pid) = s.trim().parse::<i32>() {
                    pids.push(pid);
                }
            }
        }
    }
    pids
}

/// Is the process currently sleeping inside the kernel (state S), as a
/// writer blocked on a full pipe would be?
fn proc_state(pid: i32) -> Option<char> {
    let stat = fs::read_to_string(format!("/proc/{}/stat", pid)).ok()?;
    // pid (comm) S ...
    let after = &stat[stat.rfind(')')? + 1..];
    after.trim_start().chars().next()
}

#[derive(Debug)]
enum Outcome {
    /// capture() returned by itself within the watchdog interval.
    Returned {
        result: Result<(usize, usize), String>,
        elapsed: Duration,
    },
    /// capture() was still stuck when the watchdog fired.
    Hung { blocked_writers: Vec<(i32, Option<char>)> },
}

/// Runs `build(dir).capture()` under a watchdog.
fn capture_with_watchdog<F>(build: F) -> Outcome
where
    F: FnOnce(PathBuf) -> Pipeline + Send + 'static,
{
    let tmp = tempfile::tempdir().unwrap();
    let dir = tmp.path().to_owned();

    let (tx, rx) = mpsc::channel();
    let start = Instant::now();
    let thread_dir = dir.clone();
    let worker = thread::spawn(move || {
        let res = build(thread_dir).capture();
        let res = match res {
            Ok(c) => Ok((c.stdout.len(), c.stderr.len())),
            Err(PopenError::IoError(e)) => Err(format!("IoError: {:?}", e.kind())),
            Err(e) => Err(format!("{:?}", e)),
        };
        tx.send(res).ok();
    });

    match rx.recv_timeout(WATCHDOG) {
        Ok(result) => {
            let elapsed = start.elapsed();
            worker.join().unwrap();
            // capture() has waited for (and reaped) the commands it started,
            // so there is nothing to clean up - and the recorded pids must
            // not be signalled any more, they might have been reused.
            Outcome::Returned { result, elapsed }
        }
        Err(_) => {
            // Stuck.  Note what the writers are doing, then kill them so
            // that the wait inside the library returns and nothing is left
            // behind.
            let pids = recorded_pids(&dir);
            let blocked_writers: Vec<_> = pids.iter().map(|&p| (p, proc_state(p))).collect();
            for &pid in &pids {
                unsafe { libc::kill(pid, libc::SIGKILL) };
            }
            // With the writers gone the call completes; don't wait forever
            // for that though.
            rx.recv_timeout(Duration::from_secs(3)).ok();
            Outcome::Hung { blocked_writers }
        }
    }
}

fn assert_start_error_reported(outcome: Outcome) {
    match outcome {
        Outcome::Returned { result, elapsed } => {
            println!("capture() returned {:?} after {:?}", result, elapsed);
            match result {
                Err(ref msg) if msg.contains("NotFound") => {}
                other => panic!("expected a NotFound start error, got {:?}", other),
            }
        }
        Outcome::Hung { blocked_writers } => panic!(
            "capture() did not return within {:?}: hung waiting for commands \
             blocked writing to the stderr pipe nobody reads \
             (writer pids and /proc states: {:?})",
            WATCHDOG, blocked_writers
        ),
    }
}

/// Two commands: the first floods stderr (200000 bytes > 64 KiB), the second
/// does not exist.
#[test]
fn capture_reports_missing_command_after_stderr_flood() {
    let outcome = capture_with_watchdog(|dir| noisy(&dir, "w0", 200_000) | Exec::cmd(MISSING));
    assert_start_error_reported(outcome);
}

/// Four commands, the missing one last; the flooding command comes first and
/// is followed by well-behaved ones, as in the hint of the task.
#[test]
fn capture_reports_missing_command_in_longer_pipeline() {
    let outcome = capture_with_watchdog(|dir| {
        noisy(&dir, "w0", 200_000) | Exec::cmd("cat") | Exec::cmd("cat") | Exec::cmd(MISSING)
    });
    assert_start_error_reported(outcome);
}

/// The missing command in the middle, several commands flooding stderr, and
/// input data supplied to the pipeline.
#[test]
fn capture_reports_missing_command_in_the_middle_with_input() {
    let outcome = capture_with_watchdog(|dir| {
        (noisy(&dir, "w0", 1_000_000)
            | noisy(&dir, "w1", 70_000)
            | Exec::cmd(MISSING)
            | Exec::cmd("cat"))
        .stdin("some input")
    });
    assert_start_error_reported(outcome);
}

/// Control: with error output that fits into the pipe the start error is
/// reported with or without the defect.  Shows that the harness itself is not
/// what makes the other tests fail.
#[test]
fn control_small_stderr_is_never_a_problem() {
    let outcome = capture_with_watchdog(|dir| noisy(&dir, "w0", 1_000) | Exec::cmd(MISSING));
    assert_start_error_reported(outcome);
}

/// Control: the same flooding pipeline without a missing command is captured
/// in full with or without the defect.
#[test]
fn control_flood_is_captured_when_all_commands_start() {
    match capture_with_watchdog(|dir| noisy(&dir, "w0", 200_000) | Exec::cmd("cat")) {
        Outcome::Returned {
            result: Ok((0, 200_000)),
            ..
        } => {}
        other => panic!("unexpected outcome {:?}", other),
    }
}

//! Real-kernel demonstration: redirecting a child's standard streams to files
//! whose descriptor NUMBERS are 0, 1 or 2 in the parent, which is what happens
//! when the parent itself runs with some standard descriptors closed (daemons,
//! programs started with `<&-` / `>&-`, ...) and then opens a file: the kernel
//! hands out the lowest free number.
//!
//! The cargo test harness needs its own stdout/stderr, so descriptors are not
//! closed in the test process.  Each test re-executes this test binary
//! (`std::env::current_exe()`) in "helper mode" (selected by environment
//! variables).  The helper closes descriptors itself (after start-up, because
//! the Rust runtime reopens closed 0-2 on /dev/null at start-up), opens the
//! files for the redirections, runs a real child through the public API of
//! the library and writes what it observed to a result file.  The outer test
//! reads the result file and asserts on it.
//!
//! Expected (correct) behaviour: the child's stdin/stdout/stderr are connected
//! to the files the caller named, whatever numbers these files have in the
//! parent.
//!
//! With the defect, the child set-up does `dup2(stdin_src, 0)`,
//! `dup2(stdout_src, 1)`, `dup2(stderr_src, 2)` in this order and closes each
//! source right after its dup2.  A source that sits at number 0 or 1 and is
//! meant for a HIGHER-numbered stream is replaced (or closed) by an earlier
//! step before it is used, so the stream is connected to the wrong object.

#![cfg(unix)]

use std::fs::{self, File};
use std::os::unix::io::AsRawFd;
use std::path::{Path, PathBuf};
use std::process::{Command, Stdio};
use std::time::{Duration, Instant};

use subprocess::{Exec, ExitStatus, NullFile, Popen, PopenConfig, Redirection};

const ENV_SCENARIO: &str = "REAL_DEMO_HELPER"; // scenario name, see helper_main
const ENV_CLOSE: &str = "REAL_DEMO_CLOSE"; // "1": close the scenario's descriptors first
const ENV_DIR: &str = "REAL_DEMO_DIR"; // scratch directory (result and data files)

const INPUT_TEXT: &str = "line one\nline two\n";

// ---------------------------------------------------------------------------
// helper mode
// ---------------------------------------------------------------------------

fn describe_wait(p: &mut Popen) -> String {
    match p.wait_timeout(Duration::from_secs(8)) {
        Ok(Some(ExitStatus::Exited(n))) => format!("Exited({})", n),
        Ok(Some(other)) => format!("{:?}", other),
        Ok(None) => {
            p.kill().ok();
            p.wait().ok();
            "TIMEOUT".to_string()
        }
        Err(e) => format!("wait-error:{}", e),
    }
}

fn describe_start(r: subprocess::Result<Popen>) -> String {
    match r {
        Ok(mut p) => describe_wait(&mut p),
        Err(e) => format!("start-error:{}", e),
    }
}

fn std_fds() -> String {
    (0..3)
        .map(|fd| {
            let r = unsafe { libc::fcntl(fd, libc::F_GETFD) };
            format!("{}:{}", fd, if r >= 0 { "open" } else { "closed" })
        })
        .collect::<Vec<_>>()
        .join(",")
}

fn content(path: &Path) -> String {
    match fs::read(path) {
        Ok(b) => format!("{:?}", String::from_utf8_lossy(&b)),
        Err(e) => format!("unreadable:{}", e),
    }
}

/// Runs in the re-executed test binary.  Never returns.
fn helper_main(scenario: &str) -> ! {
    let dir = PathBuf::from(std::env::var_os(ENV_DIR).expect("scratch dir"));
    let close_std = std::env::var(ENV_CLOSE).map(|v| v == "1").unwrap_or(false);
    let result_path = dir.join("result.txt");
    let input_path = dir.join("input.txt");
    let out_path = dir.join("out.txt");
    let err_path = dir.join("err.txt");
    // (fs::write opens and closes its own descriptor; nothing stays open)
    fs::write(&input_path, INPUT_TEXT).expect("write input file");

    let mut report = String::new();
    let close = |fds: &[i32]| {
        if close_std {
            for &fd in fds {
                assert_eq!(unsafe { libc::close(fd) }, 0, "close({})", fd);
            }
        }
    };

    match scenario {
        // stdin <- file numbered above 2, stdout -> file numbered 0.
        // Defect: dup2(in, 0) replaces the output file, then dup2(0, 1) makes
        // the (read-only) INPUT file the child's stdout.
        "stdout_at_0" => {
            close(&[0]);
            report.push_str(&format!("std_fds={}\n", std_fds()));
            let out = File::create(&out_path).expect("create out");
            let input = File::open(&input_path).expect("open input");
            report.push_str(&format!("out_fd={}\n", out.as_raw_fd()));
            report.push_str(&format!("in_fd={}\n", input.as_raw_fd()));
            let r = Exec::cmd("sh")
                .arg("-c")
                .arg("cat; echo done")
                .stdin(input)
                .stdout(out)
                .popen();
            report.push_str(&format!("exit={}\n", describe_start(r)));
            report.push_str(&format!("out_txt={}\n", content(&out_path)));
        }
        // stdout -> file numbered 0, stderr -> file numbered 1 (Popen::create).
        // Defect: dup2(0, 1) replaces the stderr file, close(0), then
        // dup2(1, 2) makes the STDOUT file the child's stderr, close(1) leaves
        // the child without a stdout.
        "out_at_0_err_at_1" => {
            close(&[0, 1]);
            report.push_str(&format!("std_fds={}\n", std_fds()));
            let out = File::create(&out_path).expect("create out");
            let err = File::create(&err_path).expect("create err");
            report.push_str(&format!("out_fd={}\n", out.as_raw_fd()));
            report.push_str(&format!("err_fd={}\n", err.as_raw_fd()));
            let r = Popen::create(
                &["sh", "-c", "echo to-out; echo to-err >&2"],
                PopenConfig {
                    stdout: Redirection::File(out),
                    stderr: Redirection::File(err),
                    ..Default::default()
                },
            );
            report.push_str(&format!("exit={}\n", describe_start(r)));
            report.push_str(&format!("out_txt={}\n", content(&out_path)));
            report.push_str(&format!("err_txt={}\n", content(&err_path)));
        }
        // stdin <- file above 2, stderr -> file above 2, stdout -> NullFile:
        // the LIBRARY opens /dev/null and is handed number 0.
        // Defect: dup2(in, 0) replaces /dev/null, then dup2(0, 1) makes the
        // input file the child's stdout and close(0) takes its stdin away.
        // The child reports where its stdout
        // leads (readlink of /proc/<pid of sh>/fd/1) on stderr.
        "null_at_0" => {
            let input = File::open(&input_path).expect("open input");
            let err = File::create(&err_path).expect("create err");
            report.push_str(&format!("in_fd={}\n", input.as_raw_fd()));
            report.push_str(&format!("err_fd={}\n", err.as_raw_fd()));
            close(&[0]);
            report.push_str(&format!("std_fds={}\n", std_fds()));
            let r = Exec::cmd("sh")
                .arg("-c")
                .arg("cat; t=$(readlink /proc/$$/fd/1); echo \"$t\" >&2; echo done >&2")
                .stdin(input)
                .stdout(NullFile) // opened here: lowest free number
                .stderr(err)
                .popen();
            report.push_str(&format!("exit={}\n", describe_start(r)));
            report.push_str(&format!("err_txt={}\n", content(&err_path)));
        }
        other => report.push_str(&format!("unknown scenario {}\n", other)),
    }

    fs::write(&result_path, report).expect("write result file");
    // Skip libtest's own reporting: stdout may be closed.
    unsafe { libc::_exit(0) }
}

/// Entry point of helper mode.  As an ordinary test (environment variable not
/// set) it does nothing.
#[test]
fn helper_entry() {
    if let Ok(scenario) = std::env::var(ENV_SCENARIO) {
        helper_main(&scenario);
    }
}

// ---------------------------------------------------------------------------
// outer tests
// ---------------------------------------------------------------------------

struct Outcome {
    report: String,
    _dir: tempfile::TempDir,
}

impl Outcome {
    fn get(&self, key: &str) -> Option<&str> {
        let prefix = format!("{}=", key);
        self.report
            .lines()
            .find_map(|l| l.strip_prefix(prefix.as_str()))
    }

    #[track_caller]
    fn expect(&self, key: &str, expected: &str) {
        assert_eq!(
            self.get(key),
            Some(expected),
            "`{}` differs; the helper observed:\n{}",
            key,
            self.report
        );
    }

    /// The value is the Debug form of a text.
    #[track_caller]
    fn expect_text(&self, key: &str, expected: &str) {
        self.expect(key, &format!("{:?}", expected));
    }

    fn fd(&self, key: &str) -> i32 {
        self.get(key)
            .and_then(|v| v.parse().ok())
            .unwrap_or_else(|| panic!("no `{}` in:\n{}", key, self.report))
    }
}

fn read_lossy(p: &Path) -> String {
    fs::read(p)
        .map(|b| String::from_utf8_lossy(&b).into_owned())
        .unwrap_or_default()
}

fn run_helper(scenario: &str, close_std: bool) -> Outcome {
    let dir = tempfile::tempdir().expect("tempdir");
    let result_path = dir.path().join("result.txt");
    let stderr_path = dir.path().join("helper_stderr.txt");

    let mut child = Command::new(std::env::current_exe().expect("current_exe"))
        .args(["--exact", "helper_entry", "--nocapture", "--test-threads=1"])
        .env(ENV_SCENARIO, scenario)
        .env(ENV_CLOSE, if close_std { "1" } else { "0" })
        .env(ENV_DIR, dir.path())
        .stdin(Stdio::null())
        .stdout(Stdio::null())
        .stderr(File::create(&stderr_path).expect("stderr file"))
        .spawn()
        .expect("spawn helper");

    let deadline = Instant::now() + Duration::from_secs(12);
    let status = loop {
        if let Some(st) = child.try_wait().expect("try_wait") {
            break st;
        }
        if Instant::now() >= deadline {
            child.kill().ok();
            child.wait().ok();
            panic!(
                "helper ({}, close={}) did not finish in time; stderr:\n{}",
                scenario,
                close_std,
                read_lossy(&stderr_path)
            );
        }
        std::thread::sleep(Duration::from_millis(10));
    };

    let report = fs::read_to_string(&result_path).unwrap_or_else(|e| {
        panic!(
            "helper ({}, close={}) left no result file ({}); status {:?}; stderr:\n{}",
            scenario,
            close_std,
            e,
            status,
            read_lossy(&stderr_path)
        )
    });
    assert!(status.success(), "helper status {:?}\n{}", status, report);
    eprintln!(
        "--- helper scenario={} close_std={} ---\n{}",
        scenario, close_std, report
    );
    Outcome { report, _dir: dir }
}

const ALL_OPEN: &str = "0:open,1:open,2:open";

// --- scenario 1: stdin from a file, stdout to a file that has number 0 -----

fn check_stdout_at_0(o: &Outcome) {
    o.expect_text("out_txt", &format!("{}done\n", INPUT_TEXT));
    o.expect("exit", "Exited(0)");
}

#[test]
fn stdout_file_numbered_0_with_stdin_redirected() {
    let o = run_helper("stdout_at_0", true);
    // the situation is the intended one
    o.expect("std_fds", "0:closed,1:open,2:open");
    o.expect("out_fd", "0");
    assert!(o.fd("in_fd") > 2, "{}", o.report);
    check_stdout_at_0(&o);
}

#[test]
fn control_stdout_file_with_stdin_redirected_std_open() {
    let o = run_helper("stdout_at_0", false);
    o.expect("std_fds", ALL_OPEN);
    assert!(o.fd("out_fd") > 2 && o.fd("in_fd") > 2, "{}", o.report);
    check_stdout_at_0(&o);
}

// --- scenario 2: stdout to file number 0, stderr to file number 1 -----------

fn check_out_err(o: &Outcome) {
    o.expect_text("out_txt", "to-out\n");
    o.expect_text("err_txt", "to-err\n");
    o.expect("exit", "Exited(0)");
}

#[test]
fn stdout_file_numbered_0_and_stderr_file_numbered_1() {
    let o = run_helper("out_at_0_err_at_1", true);
    o.expect("std_fds", "0:closed,1:closed,2:open");
    o.expect("out_fd", "0");
    o.expect("err_fd", "1");
    check_out_err(&o);
}

#[test]
fn control_stdout_and_stderr_files_std_open() {
    let o = run_helper("out_at_0_err_at_1", false);
    o.expect("std_fds", ALL_OPEN);
    assert!(o.fd("out_fd") > 2 && o.fd("err_fd") > 2, "{}", o.report);
    check_out_err(&o);
}

// --- scenario 3: NullFile for stdout, opened by the library at number 0 -----

fn check_null(o: &Outcome) {
    // cat's copy of the input went to /dev/null; stderr has the target of the
    // child's descriptor 1 and the end marker, and no error message of cat
    o.expect_text("err_txt", "/dev/null\ndone\n");
    o.expect("exit", "Exited(0)");
}

#[test]
fn null_file_stdout_opened_at_number_0() {
    let o = run_helper("null_at_0", true);
    o.expect("std_fds", "0:closed,1:open,2:open");
    assert!(o.fd("in_fd") > 2 && o.fd("err_fd") > 2, "{}", o.report);
    check_null(&o);
}

#[test]
fn control_null_file_stdout_std_open() {
    let o = run_helper("null_at_0", false);
    o.expect("std_fds", ALL_OPEN);
    assert!(o.fd("in_fd") > 2 && o.fd("err_fd") > 2, "{}", o.report);
    check_null(&o);
}

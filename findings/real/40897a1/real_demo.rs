//! Real-kernel demonstration: `Popen::create()` of a program that does not
//! exist, called from a process that runs with descriptors 0 and 1 closed.
//!
//! The cargo test harness needs its own stdout/stderr, so the descriptors are
//! not closed in the test process.  Each test re-executes this test binary
//! (`std::env::current_exe()`) in "helper mode" (selected by environment
//! variables) and the helper closes 0 and 1 itself, calls the library, and
//! writes what it observed to a result file.  The outer test reads the result
//! file and asserts on it.
//!
//! Expected (correct) behaviour: `Popen::create()` returns
//! `Err(IoError(ENOENT))`, no matter which descriptors the caller has open.
//!
//! With the defect (exec-failure pipe left on descriptors 0 and 1), the child
//! `dup2()`s its redirected stdout onto descriptor 1, which destroys the write
//! end of the exec-failure pipe; `create()` then sees end-of-file, returns
//! `Ok`, and the four bytes of the error code (02 00 00 00) are delivered to
//! the child's redirected stdout instead.

#![cfg(unix)]

use std::fs::{self, File};
use std::io::Read;
use std::path::{Path, PathBuf};
use std::process::{Command, Stdio};
use std::time::{Duration, Instant};

use subprocess::{ExitStatus, Popen, PopenConfig, PopenError, Redirection};

const ENV_SCENARIO: &str = "REAL_DEMO_HELPER"; // "pipe" | "file" | "echo"
const ENV_CLOSE: &str = "REAL_DEMO_CLOSE"; // "1": close descriptors 0 and 1 first
const ENV_RESULT: &str = "REAL_DEMO_RESULT"; // path of the result file
const ENV_OUTFILE: &str = "REAL_DEMO_OUTFILE"; // path of child's stdout file ("file" scenario)

const MISSING_PROGRAM: &str = "/nonexistent/program";

// ---------------------------------------------------------------------------
// helper mode
// ---------------------------------------------------------------------------

fn hex(bytes: &[u8]) -> String {
    bytes
        .iter()
        .map(|b| format!("{:02x}", b))
        .collect::<Vec<_>>()
        .join(" ")
}

fn describe_create(r: &Result<Popen, PopenError>) -> String {
    match r {
        Ok(_) => "Ok".to_string(),
        Err(PopenError::IoError(e)) => match e.raw_os_error() {
            Some(n) => format!("Err(errno={})", n),
            None => format!("Err(io:{})", e),
        },
        Err(e) => format!("Err(other:{})", e),
    }
}

fn describe_wait(p: &mut Popen) -> String {
    match p.wait_timeout(Duration::from_secs(5)) {
        Ok(Some(ExitStatus::Exited(n))) => format!("Exited({})", n),
        Ok(Some(other)) => format!("{:?}", other),
        Ok(None) => {
            p.kill().ok();
            p.wait().ok();
            "TIMEOUT".to_string()
        }
        Err(e) => format!("wait-error:{}", e),
    }
}

/// Runs in the re-executed test binary.  Never returns.
fn helper_main(scenario: &str) -> ! {
    let result_path = PathBuf::from(std::env::var_os(ENV_RESULT).expect("result path"));
    let close_std = std::env::var(ENV_CLOSE).map(|v| v == "1").unwrap_or(false);

    // Everything that needs a descriptor of its own is opened BEFORE 0 and 1
    // are closed, so that the library is the first to be handed the low
    // numbers.
    let out_file = if scenario == "file" {
        let path = PathBuf::from(std::env::var_os(ENV_OUTFILE).expect("outfile path"));
        Some((File::create(&path).expect("create outfile"), path))
    } else {
        None
    };

    let mut report = String::new();

    if close_std {
        let r0 = unsafe { libc::close(0) };
        let r1 = unsafe { libc::close(1) };
        report.push_str(&format!("close0={} close1={}\n", r0, r1));
    }
    // Record which of 0..=2 are open at the time of the call.
    let open: Vec<String> = (0..3)
        .map(|fd| {
            let r = unsafe { libc::fcntl(fd, libc::F_GETFD) };
            format!("{}:{}", fd, if r >= 0 { "open" } else { "closed" })
        })
        .collect();
    report.push_str(&format!("std_fds={}\n", open.join(",")));

    match scenario {
        "pipe" => {
            let r = Popen::create(
                &[MISSING_PROGRAM],
                PopenConfig {
                    stdout: Redirection::Pipe,
                    ..Default::default()
                },
            );
            report.push_str(&format!("create={}\n", describe_create(&r)));
            if let Ok(mut p) = r {
                let mut data = Vec::new();
                let rd = p.stdout.take().expect("stdout pipe").read_to_end(&mut data);
                report.push_str(&format!("stdout_read={:?}\n", rd.map_err(|e| e.to_string())));
                report.push_str(&format!("stdout_bytes={}\n", hex(&data)));
                report.push_str(&format!("exit={}\n", describe_wait(&mut p)));
            }
        }
        "file" => {
            let (file, path) = out_file.unwrap();
            let r = Popen::create(
                &[MISSING_PROGRAM],
                PopenConfig {
                    stdout: Redirection::File(file),
                    ..Default::default()
                },
            );
            report.push_str(&format!("create={}\n", describe_create(&r)));
            if let Ok(mut p) = r {
                report.push_str(&format!("exit={}\n", describe_wait(&mut p)));
                let data = fs::read(&path).unwrap_or_default();
                report.push_str(&format!("stdout_bytes={}\n", hex(&data)));
            }
        }
        "echo" => {
            // Sanity: a program that does exist works with 0 and 1 closed.
            let r = Popen::create(
                &["/bin/sh", "-c", "echo hello"],
                PopenConfig {
                    stdout: Redirection::Pipe,
                    ..Default::default()
                },
            );
            report.push_str(&format!("create={}\n", describe_create(&r)));
            if let Ok(mut p) = r {
                let mut data = Vec::new();
                p.stdout.take().expect("stdout pipe").read_to_end(&mut data).ok();
                report.push_str(&format!("stdout_text={:?}\n", String::from_utf8_lossy(&data)));
                report.push_str(&format!("exit={}\n", describe_wait(&mut p)));
            }
        }
        other => report.push_str(&format!("unknown scenario {}\n", other)),
    }

    fs::write(&result_path, report).expect("write result file");
    // Skip libtest's own reporting: stdout may be closed.
    unsafe { libc::_exit(0) }
}

/// Entry point of helper mode.  As an ordinary test (environment variable not
/// set) it does nothing.
#[test]
fn helper_entry() {
    if let Ok(scenario) = std::env::var(ENV_SCENARIO) {
        helper_main(&scenario);
    }
}

// ---------------------------------------------------------------------------
// outer tests
// ---------------------------------------------------------------------------

struct Outcome {
    report: String,
}

impl Outcome {
    fn get(&self, key: &str) -> Option<&str> {
        let prefix = format!("{}=", key);
        self.report
            .lines()
            .find_map(|l| l.strip_prefix(prefix.as_str()))
    }
}

fn run_helper(scenario: &str, close_std: bool) -> Outcome {
    let dir = tempfile::tempdir().expect("tempdir");
    let result_path = dir.path().join("result.txt");
    let outfile_path = dir.path().join("child_stdout.bin");
    let stderr_path = dir.path().join("helper_stderr.txt");

    let mut child = Command::new(std::env::current_exe().expect("current_exe"))
        .args(["--exact", "helper_entry", "--nocapture", "--test-threads=1"])
        .env(ENV_SCENARIO, scenario)
        .env(ENV_CLOSE, if close_std { "1" } else { "0" })
        .env(ENV_RESULT, &result_path)
        .env(ENV_OUTFILE, &outfile_path)
        .stdin(Stdio::null())
        .stdout(Stdio::null())
        .stderr(File::create(&stderr_path).expect("stderr file"))
        .spawn()
        .expect("spawn helper");

    let deadline = Instant::now() + Duration::from_secs(12);
    let status = loop {
        if let Some(st) = child.try_wait().expect("try_wait") {
            break st;
        }
        if Instant::now() >= deadline {
            child.kill().ok();
            child.wait().ok();
            panic!(
                "helper ({}, close={}) did not finish in time; stderr:\n{}",
                scenario,
                close_std,
                read_lossy(&stderr_path)
            );
        }
        std::thread::sleep(Duration::from_millis(10));
    };

    let report = fs::read_to_string(&result_path).unwrap_or_else(|e| {
        panic!(
            "helper ({}, close={}) left no result file ({}); status {:?}; stderr:\n{}",
            scenario,
            close_std,
            e,
            status,
            read_lossy(&stderr_path)
        )
    });
    assert!(status.success(), "helper status {:?}\n{}", status, report);
    eprintln!(
        "--- helper scenario={} close_std={} ---\n{}",
        scenario, close_std, report
    );
    Outcome { report }
}

fn read_lossy(p: &Path) -> String {
    fs::read(p)
        .map(|b| String::from_utf8_lossy(&b).into_owned())
        .unwrap_or_default()
}

fn assert_enoent(o: &Outcome, expected_fds: &str) {
    assert_eq!(
        o.get("std_fds"),
        Some(expected_fds),
        "helper did not run with the intended descriptors:\n{}",
        o.report
    );
    let expected = format!("Err(errno={})", libc::ENOENT);
    assert_eq!(
        o.get("create"),
        Some(expected.as_str()),
        "Popen::create() of {} must fail with ENOENT; helper observed:\n{}",
        MISSING_PROGRAM,
        o.report
    );
}

const FDS_CLOSED: &str = "0:closed,1:closed,2:open";
const FDS_OPEN: &str = "0:open,1:open,2:open";

#[test]
fn missing_program_stdout_pipe_with_0_and_1_closed() {
    assert_enoent(&run_helper("pipe", true), FDS_CLOSED);
}

#[test]
fn missing_program_stdout_file_with_0_and_1_closed() {
    assert_enoent(&run_helper("file", true), FDS_CLOSED);
}

#[test]
fn control_missing_program_stdout_pipe_std_open() {
    assert_enoent(&run_helper("pipe", false), FDS_OPEN);
}

#[test]
fn control_missing_program_stdout_file_std_open() {
    assert_enoent(&run_helper("file", false), FDS_OPEN);
}

/// Not a discriminating test (passes either way): an existing program still
/// runs and delivers its output when the caller has 0 and 1 closed.
#[test]
fn sanity_existing_program_with_0_and_1_closed() {
    let o = run_helper("echo", true);
    assert_eq!(o.get("std_fds"), Some(FDS_CLOSED), "{}", o.report);
    assert_eq!(o.get("create"), Some("Ok"), "{}", o.report);
    assert_eq!(o.get("stdout_text"), Some("\"hello\\n\""), "{}", o.report);
    assert_eq!(o.get("exit"), Some("Exited(0)"), "{}", o.report);
}

// Real-kernel demonstration of the "capture() hangs instead of returning the
// communication error" defect.
//
// The child closes its stdin right away (`exec 0<&-`) and then turns into
// `yes`, which writes to its stdout for ever.  capture() is given much more
// input than a pipe holds, so writing it must fail with EPIPE while the child
// is still producing output.  capture() has to return that error; to do so it
// must close its ends of the output pipes *before* waiting for the child,
// because `yes` only exits (SIGPIPE) once nobody can read what it writes.
// With the defect the Popen is dropped - and the child waited for - while the
// Communicator still owns the read end of the stdout pipe: `yes` stays blocked
// in write() on the full pipe, never exits, and capture() never returns.
//
// Every test runs capture() in a helper thread and watches it from the test
// thread.  When capture() doesn't return within TIMEOUT the children (which
// recorded their pids in a temporary directory) are killed, which lets the
// hung wait - and the helper thread - finish, and the test fails.
#![cfg(unix)]

use std::fs;
use std::path::{Path, PathBuf};
use std::sync::mpsc;
use std::thread;
use std::time::{Duration, Instant};

use subprocess::{Exec, PopenError};

const TIMEOUT: Duration = Duration::from_secs(10);

// Much more than the capacity of a pipe (64 KiB by default on Linux, 1 MiB at
// most for an unprivileged F_SETPIPE_SZ), so that the input can't be written
// out before the child closes its stdin.
const INPUT_SIZE: usize = 8 << 20;

fn sh(script: &str) -> Exec {
    Exec::cmd("sh").arg("-c").arg(script)
}

fn pidfile(dir: &Path, name: &str) -> PathBuf {
    dir.join(name)
}

fn read_pid(path: &Path) -> Option<i32> {
    fs::read_to_string(path).ok()?.trim().parse().ok()
}

fn kill_recorded(pidfiles: &[PathBuf]) {
    for path in pidfiles {
        if let Some(pid) = read_pid(path) {
            if pid > 1 {
                unsafe {
                    libc::kill(pid, libc::SIGKILL);
                }
            }
        }
    }
}

/// Runs `capture` in a thread.  Returns its result and the time it took, or
/// None if it had to be rescued by killing the children listed in `pidfiles`.
fn run_guarded<T: Send + 'static>(
    pidfiles: &[PathBuf],
    capture: impl FnOnce() -> T + Send + 'static,
) -> Option<(T, Duration)> {
    let (tx, rx) = mpsc::channel();
    let start = Instant::now();
    let worker = thread::spawn(move || {
        let result = capture();
        let _ = tx.send(());
        result
    });
    let in_time = rx.recv_timeout(TIMEOUT).is_ok();
    let elapsed = start.elapsed();
    if !in_time {
        // The children are blocked writing to pipes nobody reads.  Killing
        // them makes the wait in capture() return.
        kill_recorded(pidfiles);
    }
    let result = worker.join().expect("the capture thread panicked");
    // in case something is still around (e.g. capture() returned early)
    kill_recorded(pidfiles);
    if in_time {
        Some((result, elapsed))
    } else {
        None
    }
}

fn assert_epipe<T: std::fmt::Debug>(result: Result<T, PopenError>) {
    match result {
        Err(PopenError::IoError(ref e)) if e.raw_os_error() == Some(libc::EPIPE) => (),
        other => panic!("expected capture() to fail with EPIPE, got {:?}", other),
    }
}

fn exec_capture_case() {
    let dir = tempfile::tempdir().unwrap();
    let pid1 = pidfile(dir.path(), "pid1");
    let script = format!("echo $$ > '{}'; exec 0<&-; exec yes", pid1.display());
    let pidfiles = [pid1];

    let outcome = run_guarded(&pidfiles, move || {
        sh(&script).stdin(vec![b'x'; INPUT_SIZE]).capture()
    });
    match outcome {
        None => panic!(
            "Exec::capture() did not return within {:?} after the EPIPE: it was \
             waiting for a child that is blocked writing to the stdout pipe \
             capture() itself still holds open",
            TIMEOUT
        ),
        Some((result, elapsed)) => {
            eprintln!("Exec::capture() returned after {:?}", elapsed);
            assert_epipe(result.map(|c| (c.stdout.len(), c.stderr.len(), c.exit_status)));
        }
    }
}

fn pipeline_capture_case() {
    let dir = tempfile::tempdir().unwrap();
    let pid1 = pidfile(dir.path(), "pid1");
    let pid2 = pidfile(dir.path(), "pid2");
    let first = format!("echo $$ > '{}'; exec 0<&-; exec yes", pid1.display());
    let last = format!("echo $$ > '{}'; exec cat", pid2.display());
    let pidfiles = [pid1, pid2];

    let outcome = run_guarded(&pidfiles, move || {
        (sh(&first) | sh(&last))
            .stdin(vec![b'x'; INPUT_SIZE])
            .capture()
    });
    match outcome {
        None => panic!(
            "Pipeline::capture() did not return within {:?} after the EPIPE: it \
             was waiting for children that are blocked writing to the stdout \
             pipe capture() itself still holds open",
            TIMEOUT
        ),
        Some((result, elapsed)) => {
            eprintln!("Pipeline::capture() returned after {:?}", elapsed);
            assert_epipe(result.map(|c| (c.stdout.len(), c.stderr.len(), c.exit_status)));
        }
    }
}

#[test]
fn exec_capture_returns_epipe_while_child_keeps_writing() {
    exec_capture_case();
}

#[test]
fn exec_capture_returns_epipe_while_child_keeps_writing_again() {
    // same scenario once more, to show that the outcome is not a fluke
    exec_capture_case();
}

#[test]
fn pipeline_capture_returns_epipe_while_children_keep_writing() {
    pipeline_capture_case();
}

// Control: the very same children, but without the communication error
// (nothing to write), are handled fine with and without the defect - it takes
// the error path to hang.  `head` makes the output finite.
#[test]
fn control_capture_without_error_is_unaffected() {
    let outcome = run_guarded(&[], || sh("exec 0<&-; yes | head -c 1000000").capture());
    let (result, _) = outcome.expect("capture() without an error must not hang");
    let data = result.expect("capture() without an error must succeed");
    assert_eq!(data.stdout.len(), 1_000_000);
    assert!(data.exit_status.success());
}

//! Real-kernel demonstration of the defect repaired by
//! "fix: pipeline capture/communicate: do not leak the stderr pipe's write
//! end into the commands".
//!
//! `Pipeline::communicate()` / `Pipeline::capture()` create one pipe that
//! collects the standard error of all commands.  With the defect its write end
//! is inheritable, so the commands get it twice: as descriptor 2 (dup2) and
//! once more at the number it has in the parent.  A command that closes its
//! standard streams but keeps running therefore keeps the pipe open, and
//! `Communicator::read()` sees end-of-file on stderr only when it exits.
//!
//! Everything here uses the public API and real processes (sh, cat, sleep).
//! Run with: cargo test --offline --test real_demo -- --test-threads=1
#![cfg(target_os = "linux")]

use std::fs;
use std::path::{Path, PathBuf};
use std::sync::mpsc::{channel, RecvTimeoutError, Sender};
use std::sync::{Arc, Mutex};
use std::thread;
use std::time::{Duration, Instant};

use subprocess::{Exec, Redirection};

/// How long the "daemon" (a process that closed its standard streams) lives.
const DAEMON_SECS: u64 = 4;
/// `read()` must be faster than this when no process holds the pipes open.
/// (On HEAD it takes a few milliseconds; with the defect DAEMON_SECS.)
const PROMPT: Duration = Duration::from_millis(1500);

// ---------------------------------------------------------------------------
// Bookkeeping: every process started by a test records its pid in a file; the
// pids are killed and reaped when the test ends (pass, fail or panic), and a
// watchdog kills them (and finally aborts) if a test gets stuck.

struct Kids {
    pids: Arc<Mutex<Vec<i32>>>,
    _stop_watchdog: Sender<()>,
}

impl Kids {
    fn new(test: &'static str) -> Kids {
        let pids = Arc::new(Mutex::new(Vec::<i32>::new()));
        let (tx, rx) = channel::<()>();
        let wd_pids = Arc::clone(&pids);
        thread::spawn(move || {
            // Normal end: the sender is dropped -> Disconnected.
            if let Err(RecvTimeoutError::Timeout) = rx.recv_timeout(Duration::from_secs(12)) {
                eprintln!("[{}] WATCHDOG: stuck for 12 s, killing children", test);
                for &pid in wd_pids.lock().unwrap().iter() {
                    unsafe { libc::kill(pid, libc::SIGKILL) };
                }
                if let Err(RecvTimeoutError::Timeout) = rx.recv_timeout(Duration::from_secs(3)) {
                    eprintln!("[{}] WATCHDOG: still stuck, aborting", test);
                    std::process::abort();
                }
            }
        });
        Kids {
            pids,
            _stop_watchdog: tx,
        }
    }

    /// Wait until the command has written its pid to `pidfile`; remember it.
    fn adopt(&self, pidfile: &Path) -> i32 {
        let deadline = Instant::now() + Duration::from_secs(5);
        loop {
            if let Ok(s) = fs::read_to_string(pidfile) {
                if s.ends_with('\n') {
                    let pid: i32 = s.trim().parse().expect("pid file content");
                    self.pids.lock().unwrap().push(pid);
                    return pid;
                }
            }
            assert!(
                Instant::now() < deadline,
                "{} was not written",
                pidfile.display()
            );
            thread::sleep(Duration::from_millis(5));
        }
    }
}

impl Drop for Kids {
    fn drop(&mut self) {
        for &pid in self.pids.lock().unwrap().iter() {
            unsafe {
                libc::kill(pid, libc::SIGKILL);
                // The commands are (detached) children of this process.
                let mut status = 0;
                libc::waitpid(pid, &mut status, 0);
            }
        }
    }
}

fn alive(pid: i32) -> bool {
    // A zombie still "exists" for kill(); look at the state instead.
    match fs::read_to_string(format!("/proc/{}/stat", pid)) {
        Ok(stat) => {
            let after_comm = stat.rsplit(')').next().unwrap_or("").trim_start().to_owned();
            !(after_comm.starts_with('Z') || after_comm.starts_with('X'))
        }
        Err(_) => false,
    }
}

/// Wait until process `pid` has exec'ed `name`.
fn wait_comm(pid: i32, name: &str) {
    let deadline = Instant::now() + Duration::from_secs(5);
    loop {
        let comm = fs::read_to_string(format!("/proc/{}/comm", pid)).unwrap_or_default();
        if comm.trim() == name {
            return;
        }
        assert!(
            Instant::now() < deadline,
            "pid {} did not become {:?} (is {:?})",
            pid,
            name,
            comm
        );
        thread::sleep(Duration::from_millis(5));
    }
}

#[derive(Debug, Clone)]
struct Fd {
    num: i32,
    target: String, // e.g. "pipe:[12345]"
    writable: bool, // O_WRONLY or O_RDWR
}

/// The open descriptors of another process, as the kernel reports them.
fn fd_table(pid: i32) -> Vec<Fd> {
    let mut v = vec![];
    for entry in fs::read_dir(format!("/proc/{}/fd", pid)).expect("read /proc/PID/fd") {
        let entry = entry.unwrap();
        let num: i32 = entry.file_name().to_str().unwrap().parse().unwrap();
        let target = match fs::read_link(entry.path()) {
            Ok(t) => t.to_string_lossy().into_owned(),
            Err(_) => continue,
        };
        let info = fs::read_to_string(format!("/proc/{}/fdinfo/{}", pid, num)).unwrap_or_default();
        let flags = info
            .lines()
            .find_map(|l| l.strip_prefix("flags:"))
            .map(|s| u32::from_str_radix(s.trim(), 8).unwrap())
            .unwrap_or(0);
        v.push(Fd {
            num,
            target,
            writable: flags & 3 != 0,
        });
    }
    v.sort_by_key(|fd| fd.num);
    v
}

fn show(table: &[Fd]) -> String {
    table
        .iter()
        .map(|fd| {
            format!(
                "    {} -> {} ({})\n",
                fd.num,
                fd.target,
                if fd.writable { "write" } else { "read" }
            )
        })
        .collect()
}

/// `sh -c SCRIPT PIDFILE`: the script finds the pid file name in `$0`.
fn sh(script: &str, pidfile: &PathBuf) -> Exec {
    Exec::cmd("sh").arg("-c").arg(script).arg(pidfile)
}

/// Writes its pid, says something on stdout and stderr, then closes all three
/// standard streams and lives on for DAEMON_SECS (same pid: `exec`).
fn daemon_script() -> String {
    format!(
        "echo $$ > \"$0\"; echo hello; echo warn >&2; exec 0<&- 1>&- 2>&-; exec sleep {}",
        DAEMON_SECS
    )
}

/// Writes its pid and then just sits there with the descriptors it was given.
const SITTER: &str = "echo $$ > \"$0\"; exec sleep 8";

// ---------------------------------------------------------------------------

/// (1) A pipeline whose first command daemonizes (closes 0, 1, 2 and keeps
/// running).  All pipes are widowed as soon as `cat` has copied the output and
/// exited, so `Communicator::read()` must return at once.  With the defect
/// the daemon still holds the stderr pipe's write end at some descriptor
/// above 2, and read() returns only when the daemon exits.
#[test]
fn t1_pipeline_read_does_not_wait_for_daemonized_command() {
    let kids = Kids::new("t1");
    let dir = tempfile::tempdir().unwrap();
    let pidfile = dir.path().join("daemon.pid");

    let mut comm = (sh(&daemon_script(), &pidfile) | Exec::cmd("cat"))
        .communicate()
        .expect("start pipeline");
    let daemon = kids.adopt(&pidfile);

    let start = Instant::now();
    let result = comm.read();
    let elapsed = start.elapsed();
    let daemon_alive = alive(daemon);
    eprintln!(
        "[t1] read() returned after {:?}; daemon (pid {}) still running: {}",
        elapsed, daemon, daemon_alive
    );

    let (out, err) = result.expect("read");
    assert_eq!(out.as_deref(), Some(&b"hello\n"[..]), "stdout of the pipeline");
    assert_eq!(err.as_deref(), Some(&b"warn\n"[..]), "stderr of the pipeline");
    assert!(
        elapsed < PROMPT,
        "Communicator::read() took {:?}: it waited for a command that had closed \
         its stdin, stdout and stderr (daemon still running when read() returned: {})",
        elapsed,
        daemon_alive
    );
    assert!(
        daemon_alive,
        "the daemonized command should outlive read() (test setup problem)"
    );
}

/// (2) Look at the descriptor tables of the commands of a captured pipeline
/// from outside, through /proc/PID/fd.  No command may hold the stderr pipe
/// anywhere but at descriptor 2.
#[test]
fn t2_pipeline_commands_get_stderr_pipe_only_as_fd_2() {
    let kids = Kids::new("t2");
    let dir = tempfile::tempdir().unwrap();
    let pidfiles: Vec<PathBuf> = (0..3)
        .map(|i| dir.path().join(format!("cmd{}.pid", i)))
        .collect();

    let comm = (sh(SITTER, &pidfiles[0]) | sh(SITTER, &pidfiles[1]) | sh(SITTER, &pidfiles[2]))
        .communicate()
        .expect("start pipeline");

    let mut tables = vec![];
    for pidfile in &pidfiles {
        let pid = kids.adopt(pidfile);
        wait_comm(pid, "sleep");
        tables.push((pid, fd_table(pid)));
    }
    // Our own view, to identify the pipe: the Communicator holds its read end.
    let my_pid = std::process::id() as i32;
    let mine = fd_table(my_pid);
    drop(kids); // kill and reap the commands; the tables are what we need
    drop(comm);

    let mut report = String::new();
    let mut leaks = vec![];
    let mut stderr_pipes = vec![];
    for (idx, (pid, table)) in tables.iter().enumerate() {
        report += &format!("  command {} (pid {}):\n{}", idx, pid, show(table));
        let fd2 = table.iter().find(|fd| fd.num == 2).expect("fd 2 open");
        assert!(
            fd2.target.starts_with("pipe:[") && fd2.writable,
            "fd 2 of command {} should be the write end of a pipe: {:?}",
            idx,
            fd2
        );
        stderr_pipes.push(fd2.target.clone());
        for fd in table.iter().filter(|fd| fd.num > 2) {
            if fd.target == fd2.target {
                leaks.push(format!(
                    "command {} (pid {}): fd {} is another {} end of its stderr {}",
                    idx,
                    pid,
                    fd.num,
                    if fd.writable { "WRITE" } else { "read" },
                    fd.target
                ));
            }
        }
    }
    eprintln!("[t2] descriptor tables:\n{}", report);

    // sanity: one stderr pipe shared by all commands, and we hold its read end
    assert!(
        stderr_pipes.iter().all(|p| *p == stderr_pipes[0]),
        "all commands share one stderr pipe: {:?}",
        stderr_pipes
    );
    assert!(
        mine.iter()
            .any(|fd| fd.target == stderr_pipes[0] && !fd.writable),
        "the test process holds the read end of {}:\n{}",
        stderr_pipes[0],
        show(&mine)
    );

    assert!(
        leaks.is_empty(),
        "the stderr pipe's write end leaked into the commands:\n  {}\n{}",
        leaks.join("\n  "),
        report
    );
}

/// (3) Control: a single `Exec` with stdout and stderr piped behaves well with
/// and without the defect: no extra copy of a pipe end, and read() does not
/// wait for a daemonized child.
#[test]
fn t3_control_single_exec_is_fine() {
    let kids = Kids::new("t3");
    let dir = tempfile::tempdir().unwrap();

    // descriptor table
    let pidfile = dir.path().join("sitter.pid");
    let comm = sh(SITTER, &pidfile)
        .stdout(Redirection::Pipe)
        .stderr(Redirection::Pipe)
        .communicate()
        .expect("start");
    let pid = kids.adopt(&pidfile);
    wait_comm(pid, "sleep");
    let table = fd_table(pid);
    eprintln!("[t3] single Exec (pid {}):\n{}", pid, show(&table));
    unsafe { libc::kill(pid, libc::SIGKILL) };
    drop(comm);
    for std_fd in [1, 2] {
        let s = table.iter().find(|fd| fd.num == std_fd).expect("open");
        assert!(s.target.starts_with("pipe:[") && s.writable, "{:?}", s);
        for fd in table.iter().filter(|fd| fd.num > 2) {
            assert_ne!(fd.target, s.target, "fd {} duplicates fd {}", fd.num, std_fd);
        }
    }

    // daemonizing child
    let pidfile = dir.path().join("daemon.pid");
    let mut comm = sh(&daemon_script(), &pidfile)
        .stdout(Redirection::Pipe)
        .stderr(Redirection::Pipe)
        .communicate()
        .expect("start");
    let daemon = kids.adopt(&pidfile);
    let start = Instant::now();
    let (out, err) = comm.read().expect("read");
    let elapsed = start.elapsed();
    let daemon_alive = alive(daemon);
    eprintln!(
        "[t3] single Exec: read() returned after {:?}; daemon still running: {}",
        elapsed, daemon_alive
    );
    assert_eq!(out.as_deref(), Some(&b"hello\n"[..]));
    assert_eq!(err.as_deref(), Some(&b"warn\n"[..]));
    assert!(elapsed < PROMPT, "single Exec: read() took {:?}", elapsed);
    assert!(daemon_alive);
}

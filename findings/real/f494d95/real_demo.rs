// Real-kernel demonstration: Duration::MAX as a time limit must mean "no limit", not a panic.
use std::time::{Duration, Instant};
use subprocess::{Popen, PopenConfig, Redirection};

#[test]
fn wait_timeout_with_the_largest_duration() {
    let mut p = Popen::create(&["sleep", "0.3"], PopenConfig::default()).unwrap();
    let t0 = Instant::now();
    let r = std::panic::catch_unwind(std::panic::AssertUnwindSafe(|| p.wait_timeout(Duration::MAX)));
    let _ = p.wait();
    let r = r.expect("wait_timeout(Duration::MAX) panicked");
    assert_eq!(format!("{:?}", r.unwrap()), "Some(Exited(0))");
    assert!(t0.elapsed() >= Duration::from_millis(250));
}

#[test]
fn limit_time_with_the_largest_duration() {
    let cfg = PopenConfig { stdout: Redirection::Pipe, ..Default::default() };
    let mut p = Popen::create(&["sh", "-c", "sleep 0.3; echo hi"], cfg).unwrap();
    let r = std::panic::catch_unwind(std::panic::AssertUnwindSafe(|| {
        p.communicate_start(None).limit_time(Duration::MAX).read()
    }));
    let _ = p.wait();
    let (out, err) = r.expect("read() with limit_time(Duration::MAX) panicked").unwrap();
    assert_eq!(out.unwrap(), b"hi\n");
    assert!(err.is_none());
}

#[test]
fn control_large_but_representable_limit() {
    let cfg = PopenConfig { stdout: Redirection::Pipe, ..Default::default() };
    let mut p = Popen::create(&["sh", "-c", "sleep 0.1; echo hi"], cfg).unwrap();
    let (out, _) = p.communicate_start(None).limit_time(Duration::from_secs(u64::MAX / 4)).read().unwrap();
    let _ = p.wait();
    assert_eq!(out.unwrap(), b"hi\n");
}

//! Real-kernel demonstration: communicate() must not report a bogus timeout
//! when the child closes its stdin while the stdin pipe is full.
//!
//! On Linux, poll() on the write end of a pipe that is *full* and whose last
//! reader has gone away reports `POLLERR` alone (no `POLLOUT`, no `POLLHUP`).
//! If the communicate loop does not count `POLLERR` as readiness, it sees
//! "nothing ready" and returns `ErrorKind::TimedOut` -- even when no time
//! limit was ever set.  The correct outcome is to attempt the write and report
//! its real error, `EPIPE` (`ErrorKind::BrokenPipe`).
#![cfg(unix)]

use std::io::ErrorKind;
use std::sync::mpsc;
use std::thread;
use std::time::{Duration, Instant};

use subprocess::{Communicator, Popen, PopenConfig, Redirection};

/// Much more than a pipe can hold (64 KiB by default on Linux), so the
/// parent is guaranteed to fill the pipe and then wait in poll().
const INPUT_SIZE: usize = 1 << 20;

const WATCHDOG: Duration = Duration::from_secs(10);

/// Kills the child's whole process group (children are started with
/// `setpgid: true`, so that includes grandchildren) and reaps the child, no
/// matter how the test ends.
struct KillOnDrop(Popen);

impl Drop for KillOnDrop {
    fn drop(&mut self) {
        if let Some(pid) = self.0.pid() {
            unsafe {
                libc::kill(-(pid as libc::pid_t), libc::SIGKILL);
            }
        }
        let _ = self.0.kill();
        let _ = self.0.wait_timeout(Duration::from_secs(2));
        self.0.detach();
    }
}

/// Result of a single `Communicator::read()`, flattened so it can be sent
/// across threads and inspected easily.
#[derive(Debug)]
struct Outcome {
    result: Result<(), (ErrorKind, Option<i32>, String)>,
    elapsed: Duration,
}

/// Run `comm.read()` in a helper thread, guarded by a watchdog.
fn read_with_watchdog(mut comm: Communicator) -> Outcome {
    let (tx, rx) = mpsc::channel();
    thread::spawn(move || {
        let start = Instant::now();
        let result = match comm.read() {
            Ok(_) => Ok(()),
            Err(e) => Err((e.kind(), e.error.raw_os_error(), e.to_string())),
        };
        let _ = tx.send(Outcome {
            result,
            elapsed: start.elapsed(),
        });
    });
    match rx.recv_timeout(WATCHDOG) {
        Ok(outcome) => outcome,
        Err(_) => panic!("watchdog: Communicator::read() did not return within {:?}", WATCHDOG),
    }
}

fn assert_broken_pipe(outcome: &Outcome, context: &str) {
    eprintln!("{}: outcome = {:?}", context, outcome);
    match &outcome.result {
        Err((ErrorKind::BrokenPipe, errno, _)) => {
            assert_eq!(*errno, Some(libc::EPIPE), "{}: expected EPIPE", context);
        }
        Err((ErrorKind::TimedOut, _, _)) => panic!(
            "{}: DEFECT: read() reported TimedOut after {:?}; the child merely closed its \
             stdin while the pipe was full (poll() said POLLERR), expected BrokenPipe/EPIPE",
            context, outcome.elapsed
        ),
        other => panic!("{}: unexpected outcome {:?}", context, other),
    }
}

/// Sanity check of the kernel behaviour the other tests rely on; passes
/// regardless of the defect.  A full pipe with no readers polls as POLLERR
/// only.
#[test]
fn kernel_reports_pollerr_only_for_full_pipe_without_readers() {
    unsafe {
        let mut fds = [0 as libc::c_int; 2];
        assert_eq!(libc::pipe2(fds.as_mut_ptr(), libc::O_CLOEXEC), 0);
        let (r, w) = (fds[0], fds[1]);
        // Fill the pipe using non-blocking writes.
        let flags = libc::fcntl(w, libc::F_GETFL);
        libc::fcntl(w, libc::F_SETFL, flags | libc::O_NONBLOCK);
        let buf = [0u8; 4096];
        loop {
            let n = libc::write(w, buf.as_ptr() as *const libc::c_void, buf.len());
            if n < 0 {
                break;
            }
        }
        libc::close(r);
        let mut pfd = libc::pollfd {
            fd: w,
            events: libc::POLLOUT,
            revents: 0,
        };
        let cnt = libc::poll(&mut pfd, 1, 0);
        libc::close(w);
        assert_eq!(cnt, 1);
        assert_eq!(
            pfd.revents,
            libc::POLLERR,
            "expected POLLERR alone, got {:#x}",
            pfd.revents
        );
    }
}

/// No time limit at all.  stdin and stdout are both pipes, so communicate
/// must poll().  The child never reads stdin; after a delay (during which
/// the parent fills the pipe and blocks in poll) the shell closes its stdin,
/// while a long-lived `sleep` keeps stdout open.
#[test]
fn no_time_limit_child_closes_stdin_while_pipe_full() {
    let mut p = KillOnDrop(
        Popen::create(
            &["sh", "-c", "sleep 1 <&-; exec <&-; exec sleep 30"],
            PopenConfig {
                stdin: Redirection::Pipe,
                stdout: Redirection::Pipe,
                setpgid: true,
                ..Default::default()
            },
        )
        .unwrap(),
    );
    let comm = p.0.communicate_start(Some(vec![b'x'; INPUT_SIZE]));
    let outcome = read_with_watchdog(comm);
    assert_broken_pipe(&outcome, "no time limit");
}

/// With a generous time limit (8 s) and only stdin piped.  The child closes
/// its stdin after ~1 s; a TimedOut reported long before the limit expires
/// is bogus.
#[test]
fn generous_time_limit_child_closes_stdin_while_pipe_full() {
    let mut p = KillOnDrop(
        Popen::create(
            &["sh", "-c", "sleep 1 <&-; exec <&-; exec sleep 30"],
            PopenConfig {
                stdin: Redirection::Pipe,
                setpgid: true,
                ..Default::default()
            },
        )
        .unwrap(),
    );
    let comm = p
        .0
        .communicate_start(Some(vec![b'x'; INPUT_SIZE]))
        .limit_time(Duration::from_secs(8));
    let outcome = read_with_watchdog(comm);
    assert!(
        outcome.elapsed < Duration::from_secs(6),
        "read() took {:?}, the child should have closed stdin after ~1s",
        outcome.elapsed
    );
    assert_broken_pipe(&outcome, "8s time limit");
}

/// Same scenario, but the child *exits* (instead of closing the descriptor)
/// while a grandchild that does not hold the stdin pipe keeps stdout open.
#[test]
fn no_time_limit_child_exits_while_pipe_full() {
    let mut p = KillOnDrop(
        Popen::create(
            &["sh", "-c", "sleep 30 <&- & sleep 1 <&-; exit 0"],
            PopenConfig {
                stdin: Redirection::Pipe,
                stdout: Redirection::Pipe,
                setpgid: true,
                ..Default::default()
            },
        )
        .unwrap(),
    );
    let comm = p.0.communicate_start(Some(vec![b'x'; INPUT_SIZE]));
    let outcome = read_with_watchdog(comm);
    // The background sleep is not our direct child; KillOnDrop kills it
    // through the process group.
    assert_broken_pipe(&outcome, "child exit, no time limit");
}

//! Real-kernel demonstration of: "pipeline: do not hang when a later command
//! fails to start".
//!
//! A pipeline `cat | <nonexistent program>` with a piped stdin is started.
//! `cat` starts fine, the second command fails in execvp().  The error must
//! be returned promptly.  With the defect the already started `cat` is waited
//! for (Popen::drop) while the parent still holds the write end of cat's
//! stdin pipe, so cat never sees EOF, never exits, and the call never returns.
//!
//! Every scenario runs in a helper thread; the main test thread is the
//! watchdog.  If the helper does not report within 10 s, the stray children
//! of this process are found through /proc and SIGKILLed (which also unblocks
//! the helper), and the test fails.

#![cfg(unix)]

use std::fs;
use std::io::Write;
use std::sync::mpsc;
use std::thread;
use std::time::{Duration, Instant};

use subprocess::{Exec, Redirection};

const NONEXISTENT: &str = "/nonexistent-dir-real-demo/no-such-program";
const WATCHDOG: Duration = Duration::from_secs(10);

/// PIDs of all live (or zombie) processes whose parent is this process.
fn children_of_self() -> Vec<libc::pid_t> {
    let me = std::process::id() as libc::pid_t;
    let mut found = Vec::new();
    for entry in fs::read_dir("/proc").unwrap() {
        let entry = match entry {
            Ok(e) => e,
            Err(_) => continue,
        };
        let pid: libc::pid_t = match entry.file_name().to_string_lossy().parse() {
            Ok(p) => p,
            Err(_) => continue,
        };
        let stat = match fs::read_to_string(format!("/proc/{}/stat", pid)) {
            Ok(s) => s,
            Err(_) => continue,
        };
        // pid (comm) state ppid ...   -- comm may contain spaces/parens, so
        // parse after the last ')'.
        let rest = match stat.rfind(')') {
            Some(i) => &stat[i + 1..],
            None => continue,
        };
        let mut fields = rest.split_whitespace();
        let _state = fields.next();
        let ppid: libc::pid_t = match fields.next().and_then(|s| s.parse().ok()) {
            Some(p) => p,
            None => continue,
        };
        if ppid == me {
            found.push(pid);
        }
    }
    found
}

fn describe(pid: libc::pid_t) -> String {
    let comm = fs::read_to_string(format!("/proc/{}/comm", pid)).unwrap_or_default();
    let wchan = fs::read_to_string(format!("/proc/{}/wchan", pid)).unwrap_or_default();
    format!("pid {} comm={:?} wchan={:?}", pid, comm.trim(), wchan.trim())
}

fn kill_children() -> Vec<String> {
    let mut killed = Vec::new();
    for pid in children_of_self() {
        killed.push(describe(pid));
        unsafe {
            libc::kill(pid, libc::SIGKILL);
        }
    }
    killed
}

/// Runs `scenario` in a helper thread and returns what it reported.  Panics
/// (after killing stray children) if it does not finish within WATCHDOG.
fn run_guarded<F>(name: &str, scenario: F) -> String
where
    F: FnOnce() -> String + Send + 'static,
{
    let (tx, rx) = mpsc::channel();
    let start = Instant::now();
    let helper = thread::spawn(move || {
        let outcome = scenario();
        let _ = tx.send(outcome);
    });
    match rx.recv_timeout(WATCHDOG) {
        Ok(outcome) => {
            helper.join().unwrap();
            let elapsed = start.elapsed();
            eprintln!("{}: returned after {:?}: {}", name, elapsed, outcome);
            assert!(
                elapsed < Duration::from_secs(5),
                "{}: took suspiciously long: {:?}",
                name,
                elapsed
            );
            // Nothing may be left behind.
            let stray = children_of_self();
            assert!(
                stray.is_empty(),
                "{}: stray children left: {:?}",
                name,
                stray.iter().map(|p| describe(*p)).collect::<Vec<_>>()
            );
            outcome
        }
        Err(_) => {
            let killed = kill_children();
            // With the children dead the blocked wait returns.
            let _ = rx.recv_timeout(Duration::from_secs(3));
            let _ = helper.join();
            panic!(
                "{}: HANG: the call did not return within {:?} although the second \
                 command could not be started; stray children that had to be \
                 SIGKILLed: {:?}",
                name, WATCHDOG, killed
            );
        }
    }
}

#[test]
fn popen_returns_error_when_second_command_fails_to_start() {
    let outcome = run_guarded("popen", || {
        let res = (Exec::cmd("cat") | Exec::cmd(NONEXISTENT))
            .stdin(Redirection::Pipe)
            .popen();
        match res {
            Ok(v) => format!("unexpected Ok with {} commands", v.len()),
            Err(e) => format!("Err: {}", e),
        }
    });
    assert!(outcome.starts_with("Err:"), "{}", outcome);
}

#[test]
fn popen_three_commands_last_fails_to_start() {
    // cat reads to EOF; `sh -c 'cat >/dev/null'` too.  Both only finish once
    // the parent's write end of the first stdin is closed.
    let outcome = run_guarded("popen3", || {
        let res = (Exec::cmd("cat") | Exec::cmd("sh").arg("-c").arg("cat >/dev/null")
            | Exec::cmd(NONEXISTENT))
        .stdin(Redirection::Pipe)
        .popen();
        match res {
            Ok(v) => format!("unexpected Ok with {} commands", v.len()),
            Err(e) => format!("Err: {}", e),
        }
    });
    assert!(outcome.starts_with("Err:"), "{}", outcome);
}

#[test]
fn stream_stdin_returns_error_when_second_command_fails_to_start() {
    let outcome = run_guarded("stream_stdin", || {
        let res = (Exec::cmd("cat") | Exec::cmd(NONEXISTENT)).stream_stdin();
        match res {
            Ok(mut w) => {
                let _ = w.write_all(b"x");
                "unexpected Ok".to_string()
            }
            Err(e) => format!("Err: {}", e),
        }
    });
    assert!(outcome.starts_with("Err:"), "{}", outcome);
}

#[test]
fn capture_with_input_returns_error_when_second_command_fails_to_start() {
    let outcome = run_guarded("capture", || {
        let res = (Exec::cmd("cat") | Exec::cmd(NONEXISTENT))
            .stdin("some input data\n")
            .capture();
        match res {
            Ok(c) => format!("unexpected Ok: {:?}", c.stdout_str()),
            Err(e) => format!("Err: {}", e),
        }
    });
    assert!(outcome.starts_with("Err:"), "{}", outcome);
}

/// Control: the same pipeline shape with a second command that does start
/// works in both states of the code, so the failures above are really about
/// the failed start.
#[test]
fn control_pipeline_with_startable_commands_works() {
    let outcome = run_guarded("control", || {
        let c = (Exec::cmd("cat") | Exec::cmd("cat"))
            .stdin("hello\n")
            .capture()
            .unwrap();
        c.stdout_str()
    });
    assert_eq!(outcome, "hello\n");
}

//! Real-kernel demonstration of the "pipe inherited by a child forked by
//! another thread" race (fixed by creating the library's pipes with
//! `pipe2(O_CLOEXEC)`).
//!
//! Linux only: the tests inspect `/proc/<pid>/fd`.  Run with
//!
//!     cargo test --offline --test real_demo -- --test-threads=1
//!
//! See REAL_DEMO.md for the explanation and the observed results.
#![cfg(target_os = "linux")]

use std::collections::{HashMap, HashSet};
use std::fs;
use std::io::Read;
use std::sync::atomic::{AtomicBool, AtomicUsize, Ordering};
use std::sync::{Arc, Mutex};
use std::thread;
use std::time::{Duration, Instant};

use subprocess::{Popen, PopenConfig, Redirection};

/// The descriptor table of a process as seen from outside:
/// (descriptor number, link target such as "pipe:[12345]" or "/dev/null").
fn fd_table(pid: &str) -> Vec<(u32, String)> {
    let mut table = Vec::new();
    let dir = match fs::read_dir(format!("/proc/{}/fd", pid)) {
        Ok(dir) => dir,
        Err(_) => return table,
    };
    for entry in dir {
        let entry = match entry {
            Ok(entry) => entry,
            Err(_) => continue,
        };
        let fd: u32 = match entry.file_name().to_string_lossy().parse() {
            Ok(fd) => fd,
            Err(_) => continue,
        };
        if let Ok(target) = fs::read_link(entry.path()) {
            table.push((fd, target.to_string_lossy().into_owned()));
        }
    }
    table.sort();
    table
}

fn is_pipe(target: &str) -> bool {
    target.starts_with("pipe:[")
}

/// Pipes that the test process itself was started with (inherited from
/// cargo, a CI runner...).  Children legitimately inherit those.
fn baseline_pipes() -> HashSet<String> {
    fd_table("self")
        .into_iter()
        .map(|(_, target)| target)
        .filter(|target| is_pipe(target))
        .collect()
}

fn kill_and_reap(p: &mut Popen) {
    p.kill().ok();
    p.wait().ok();
}

/// Descriptor census.
///
/// Several threads start children with all three standard streams piped.
/// Each child is examined right after `Popen::create` returns, which is
/// after its `exec`: other than 0, 1 and 2 it must not hold any pipe (apart
/// from those that the test process itself inherited).  A pipe found there
/// was created by another thread's `Popen::create` and was inheritable at the
/// time this child was forked.
#[test]
fn children_do_not_inherit_pipes_of_concurrent_spawns() {
    const THREADS: usize = 6;
    const RUN_FOR: Duration = Duration::from_secs(4);
    const MAX_SPAWNS_PER_THREAD: usize = 1500;

    let baseline = Arc::new(baseline_pipes());
    // pipe -> (pid of the child it was made for, stream name)
    let owners: Arc<Mutex<HashMap<String, (u32, &'static str)>>> =
        Arc::new(Mutex::new(HashMap::new()));
    // (pid, descriptor, pipe)
    let leaks: Arc<Mutex<Vec<(u32, u32, String)>>> = Arc::new(Mutex::new(Vec::new()));
    let spawned = Arc::new(AtomicUsize::new(0));
    let leaky_children = Arc::new(AtomicUsize::new(0));

    let start = Instant::now();
    let mut workers = Vec::new();
    for _ in 0..THREADS {
        let baseline = Arc::clone(&baseline);
        let owners = Arc::clone(&owners);
        let leaks = Arc::clone(&leaks);
        let spawned = Arc::clone(&spawned);
        let leaky_children = Arc::clone(&leaky_children);
        workers.push(thread::spawn(move || {
            for _ in 0..MAX_SPAWNS_PER_THREAD {
                if start.elapsed() >= RUN_FOR {
                    break;
                }
                let mut p = Popen::create(
                    &["sleep", "30"],
                    PopenConfig {
                        stdin: Redirection::Pipe,
                        stdout: Redirection::Pipe,
                        stderr: Redirection::Pipe,
                        ..Default::default()
                    },
                )
                .expect("cannot start sleep");
                let pid = p.pid().expect("a running child has a pid");
                spawned.fetch_add(1, Ordering::SeqCst);

                let table = fd_table(&pid.to_string());
                assert!(
                    table.iter().filter(|(fd, _)| *fd <= 2).count() == 3,
                    "cannot examine child {}: {:?}",
                    pid,
                    table
                );
                let mut leaky = false;
                for (fd, target) in table {
                    if !is_pipe(&target) {
                        continue;
                    }
                    if fd <= 2 {
                        let stream = ["stdin", "stdout", "stderr"][fd as usize];
                        owners.lock().unwrap().insert(target, (pid, stream));
                    } else if !baseline.contains(&target) {
                        leaky = true;
                        leaks.lock().unwrap().push((pid, fd, target));
                    }
                }
                if leaky {
                    leaky_children.fetch_add(1, Ordering::SeqCst);
                }
                kill_and_reap(&mut p);
            }
        }));
    }
    for w in workers {
        w.join().unwrap();
    }

    let spawned = spawned.load(Ordering::SeqCst);
    let leaky_children = leaky_children.load(Ordering::SeqCst);
    let leaks = leaks.lock().unwrap();
    let owners = owners.lock().unwrap();
    println!(
        "census: {} children started by {} threads in {:?}; {} of them held {} foreign pipe descriptors",
        spawned,
        THREADS,
        start.elapsed(),
        leaky_children,
        leaks.len()
    );
    let mut report = String::new();
    for (pid, fd, pipe) in leaks.iter().take(10) {
        let origin = match owners.get(pipe) {
            Some((owner, stream)) => format!("the {} pipe of child {}", stream, owner),
            None => "a launch-status pipe, or a pipe of a spawn that was in progress".to_string(),
        };
        report.push_str(&format!(
            "\n  child {} has descriptor {} -> {} ({})",
            pid, fd, pipe, origin
        ));
    }
    assert!(spawned >= 100, "only {} children started", spawned);
    assert!(
        leaks.is_empty(),
        "{} of {} children inherited pipes that belong to other spawns ({} descriptors); first ones:{}",
        leaky_children,
        spawned,
        leaks.len(),
        report
    );
}

/// The consequence.
///
/// "Reader" threads run `true` with its output piped and read the pipe to
/// end-of-file, which must arrive as soon as `true` exits - in milliseconds.
/// Meanwhile one thread keeps a number of `sleep 3` children alive.  When a
/// `sleep` is forked while a reader is inside `Popen::create` and inherits
/// the write end of the output pipe (or of the launch-status pipe, which
/// blocks `Popen::create` itself), end-of-file is held back until that
/// `sleep` exits, 3 seconds later.
#[test]
fn eof_on_output_pipe_is_not_delayed_by_unrelated_children() {
    const READERS: usize = 3;
    const RUN_FOR: Duration = Duration::from_secs(4);
    const MAX_RUNS_PER_READER: usize = 1500;
    const TOO_LONG: Duration = Duration::from_millis(1500);
    const SLEEPERS: usize = 24;

    let stop = Arc::new(AtomicBool::new(false));
    let runs = Arc::new(AtomicUsize::new(0));
    let slowest_ms = Arc::new(AtomicUsize::new(0));
    // (elapsed, pid of the `true` child)
    let delayed: Arc<Mutex<Vec<(Duration, u32)>>> = Arc::new(Mutex::new(Vec::new()));

    let sleeper_thread = {
        let stop = Arc::clone(&stop);
        thread::spawn(move || {
            let mut sleepers: Vec<Popen> = Vec::new();
            let mut started = 0usize;
            while !stop.load(Ordering::SeqCst) {
                sleepers.retain_mut(|p| p.poll().is_none());
                if sleepers.len() < SLEEPERS {
                    let p = Popen::create(&["sleep", "3"], PopenConfig::default())
                        .expect("cannot start sleep");
                    sleepers.push(p);
                    started += 1;
                    // spread the forks over time rather than in one burst
                    thread::sleep(Duration::from_micros(300));
                } else {
                    thread::sleep(Duration::from_millis(1));
                }
            }
            for p in sleepers.iter_mut() {
                kill_and_reap(p);
            }
            started
        })
    };

    let start = Instant::now();
    let mut readers = Vec::new();
    for _ in 0..READERS {
        let stop = Arc::clone(&stop);
        let runs = Arc::clone(&runs);
        let slowest_ms = Arc::clone(&slowest_ms);
        let delayed = Arc::clone(&delayed);
        readers.push(thread::spawn(move || {
            for _ in 0..MAX_RUNS_PER_READER {
                if stop.load(Ordering::SeqCst) || start.elapsed() >= RUN_FOR {
                    break;
                }
                let t0 = Instant::now();
                let mut p = Popen::create(
                    &["true"],
                    PopenConfig {
                        stdout: Redirection::Pipe,
                        ..Default::default()
                    },
                )
                .expect("cannot start true");
                let pid = p.pid().unwrap_or(0);
                let mut out = Vec::new();
                p.stdout
                    .take()
                    .unwrap()
                    .read_to_end(&mut out)
                    .expect("cannot read the output of true");
                let elapsed = t0.elapsed();
                p.wait().ok();
                assert!(out.is_empty());
                runs.fetch_add(1, Ordering::SeqCst);
                slowest_ms.fetch_max(elapsed.as_millis() as usize, Ordering::SeqCst);
                if elapsed >= TOO_LONG {
                    delayed.lock().unwrap().push((elapsed, pid));
                    // one is enough; let everybody finish
                    stop.store(true, Ordering::SeqCst);
                }
            }
        }));
    }
    for r in readers {
        r.join().unwrap();
    }
    stop.store(true, Ordering::SeqCst);
    let sleepers_started = sleeper_thread.join().unwrap();

    let runs = runs.load(Ordering::SeqCst);
    let delayed = delayed.lock().unwrap();
    println!(
        "consequence: {} runs of `true` by {} threads, {} `sleep 3` started, in {:?}; slowest run {} ms; delayed: {:?}",
        runs,
        READERS,
        sleepers_started,
        start.elapsed(),
        slowest_ms.load(Ordering::SeqCst),
        *delayed
    );
    assert!(
        delayed.is_empty(),
        "end-of-file on the output pipe of `true` took {:?} (child {}): \
         an unrelated `sleep 3` was holding the write end of one of its pipes",
        delayed[0].0,
        delayed[0].1
    );
    assert!(runs >= 50, "only {} runs", runs);
}

#!/bin/bash
# Confirm a real-kernel demonstration of a repaired defect both ways:
#   findings/real/<commit>/real_demo.rs must PASS on /repo's tree and FAIL once
#   the fix is reverted (findings/real/<commit>/reintroduce_defect.diff).  Works in a scratch
#   worktree outside /repo and /verif and removes it afterwards.
# usage: findings/real/verify.sh <commit> [...]      (no argument: all)
set -u
here=$(cd "$(dirname "$0")" && pwd)
verif=$(cd "$here/../.." && pwd)
[ $# -eq 0 ] && set -- $(cd "$here" && ls -d */ | tr -d /)
rc=0
for c in "$@"; do
  d="$here/$c"
  patch="$d/reintroduce_defect.diff"   # the fix reverted, adapted to HEAD where later fixes touch the same lines
  if [ ! -f "$d/real_demo.rs" ] || [ ! -f "$patch" ]; then echo "$c: missing demo or patch"; rc=2; continue; fi
  w=$(mktemp -d /var/tmp/realv.XXXXXX); rmdir "$w"
  git -C /repo worktree add -q --detach "$w" HEAD || { rc=2; continue; }
  cp "$d/real_demo.rs" "$w/tests/real_demo.rs"
  run() { (cd "$w" && CARGO_NET_OFFLINE=true timeout 300 cargo test --offline --test real_demo -- --test-threads=1 >"$w/out.$1" 2>&1); echo $?; }
  a=$(run head)
  git -C "$w" apply "$patch" || { echo "$c: patch does not apply"; rc=2; }
  b=$(run defect)
  sum_a=$(grep -h "^test result" "$w/out.head" | tail -1)
  sum_b=$(grep -h "^test result" "$w/out.defect" | tail -1)
  if [ "$a" = 0 ] && [ "$b" != 0 ] && [ "$b" != 124 ]; then v=CONFIRMED; else v=NOT-CONFIRMED; rc=1; fi
  echo "$c: $v  head: exit=$a [$sum_a]  defect: exit=$b [$sum_b]"
  { echo "head:   exit=$a $sum_a"; echo "defect: exit=$b $sum_b"; grep -h "^test .*FAILED\|panicked at" "$w/out.defect" | head -20; } > "$d/verify.log"
  git -C /repo worktree remove --force "$w"; rm -rf "$w"
done
git -C /repo worktree prune
exit $rc

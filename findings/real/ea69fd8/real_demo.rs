//! Real-kernel demonstration: a failed launch with `detached: true` must not
//! leave a zombie behind.
//!
//! When exec fails, the forked child reports errno through the exec-fail pipe
//! and `_exit(127)`s.  `Popen::create` returns `Err`, so the caller never gets
//! a handle to wait on; `Popen::drop` skips the wait for detached instances.
//! Unless `os_start` reaps the child itself, every failed detached launch
//! leaves a zombie child of the calling process.
//!
//! The tests ask the real kernel, via `waitpid(-1, WNOHANG)`, whether this
//! process has any un-reaped child after the failed launch.

#![cfg(unix)]

use std::io;
use std::sync::Mutex;
use std::thread::sleep;
use std::time::{Duration, Instant};

use subprocess::{Exec, Popen, PopenConfig, PopenError};

// waitpid(-1) is process-wide, so the tests must not overlap even if somebody
// forgets `--test-threads=1`.
static SERIAL: Mutex<()> = Mutex::new(());

fn serial() -> std::sync::MutexGuard<'static, ()> {
    SERIAL.lock().unwrap_or_else(|e| e.into_inner())
}

const NO_SUCH_PROGRAM: &str = "/nonexistent-dir-real-demo/no-such-program";

/// Children of this process the kernel still knows about.
#[derive(Debug, PartialEq)]
enum Leftover {
    /// waitpid(-1) says ECHILD: no children at all, nothing to reap.
    None,
    /// These (pid, raw wait status) pairs were still un-reaped (zombies, or
    /// about to become one); we reaped them so later tests start clean.
    Unreaped(Vec<(libc::pid_t, libc::c_int)>),
}

/// Reap everything that `waitpid(-1)` will give us and report what was found.
/// A child that exists but has not exited yet (waitpid returns 0) is polled
/// for up to `patience`; the exec-failed child exits right after writing to
/// the pipe, so that only takes microseconds.
fn leftover_children(patience: Duration) -> Leftover {
    let deadline = Instant::now() + patience;
    let mut found = Vec::new();
    loop {
        let mut status: libc::c_int = 0;
        let r = unsafe { libc::waitpid(-1, &mut status, libc::WNOHANG) };
        if r > 0 {
            found.push((r, status));
            continue;
        }
        if r == 0 {
            // A child exists that nobody has reaped and that is still alive.
            assert!(
                Instant::now() < deadline,
                "a child of this process is still running after {:?}; already reaped: {:?}",
                patience,
                found
            );
            sleep(Duration::from_millis(5));
            continue;
        }
        let err = io::Error::last_os_error();
        match err.raw_os_error() {
            Some(libc::EINTR) => continue,
            Some(libc::ECHILD) => break,
            _ => panic!("unexpected waitpid error: {}", err),
        }
    }
    if found.is_empty() {
        Leftover::None
    } else {
        Leftover::Unreaped(found)
    }
}

fn assert_enoent(err: &PopenError) {
    match err {
        PopenError::IoError(e) => assert_eq!(
            e.raw_os_error(),
            Some(libc::ENOENT),
            "expected ENOENT from the failed exec, got {:?}",
            e
        ),
        other => panic!("expected IoError(ENOENT), got {:?}", other),
    }
}

/// Precondition shared by all tests: this process has no children before the
/// launch under test, so anything waitpid(-1) finds afterwards is ours.
fn assert_clean_slate() {
    assert_eq!(
        leftover_children(Duration::from_secs(5)),
        Leftover::None,
        "test precondition: stray children before the test started"
    );
}

/// Sanity / control: a failed launch that is NOT detached never leaves a
/// zombie (Drop reaps it even with the defect).  Passes in both directions.
#[test]
fn t0_control_failed_launch_not_detached_leaves_no_zombie() {
    let _g = serial();
    assert_clean_slate();

    let err = Popen::create(&[NO_SUCH_PROGRAM], PopenConfig::default())
        .expect_err("launching a nonexistent program must fail");
    assert_enoent(&err);

    assert_eq!(leftover_children(Duration::from_secs(5)), Leftover::None);
}

/// Control: a successful detached launch of a real program is reapable by the
/// caller as usual, and nothing is left over afterwards.
#[test]
fn t1_control_successful_detached_launch_is_waitable() {
    let _g = serial();
    assert_clean_slate();

    let mut p = Popen::create(
        &["true"],
        PopenConfig {
            detached: true,
            ..Default::default()
        },
    )
    .expect("launching `true` must succeed");
    let status = p.wait().expect("wait");
    assert!(status.success(), "`true` exited with {:?}", status);
    drop(p);

    assert_eq!(leftover_children(Duration::from_secs(5)), Leftover::None);
}

/// The defect: `detached: true` + exec failure => zombie child.
#[test]
fn t2_failed_detached_launch_leaves_no_zombie() {
    let _g = serial();
    assert_clean_slate();

    let err = Popen::create(
        &[NO_SUCH_PROGRAM],
        PopenConfig {
            detached: true,
            ..Default::default()
        },
    )
    .expect_err("launching a nonexistent program must fail");
    assert_enoent(&err);

    // The caller got an Err and holds no Popen: if the library did not reap
    // the forked child, nobody can (short of a blanket waitpid(-1)).
    let left = leftover_children(Duration::from_secs(5));
    assert_eq!(
        left,
        Leftover::None,
        "failed detached launch left un-reaped child(ren) (pid, raw status) behind; \
         raw status 0x7f00 == exited with code 127"
    );
}

/// Same through the builder API, with a different exec failure (EACCES: the
/// "program" is a directory), and repeated: zombies accumulate one per call.
#[test]
fn t3_failed_detached_exec_builder_launches_do_not_accumulate_zombies() {
    let _g = serial();
    assert_clean_slate();

    let dir = tempfile::tempdir().unwrap();
    const N: usize = 20;
    for _ in 0..N {
        let err = Exec::cmd(dir.path())
            .arg("x")
            .detached()
            .popen()
            .expect_err("exec of a directory must fail");
        match err {
            PopenError::IoError(ref e) => {
                assert_eq!(e.raw_os_error(), Some(libc::EACCES), "got {:?}", e)
            }
            ref other => panic!("expected IoError(EACCES), got {:?}", other),
        }
    }

    let left = leftover_children(Duration::from_secs(5));
    if let Leftover::Unreaped(ref v) = left {
        // With the defect this is exactly N children, each exited with 127.
        eprintln!("{} un-reaped children after {} failed launches", v.len(), N);
    }
    assert_eq!(
        left,
        Leftover::None,
        "failed detached launches left zombies behind"
    );
}

/// Independent view of the same thing, not relying on waitpid: look the
/// zombie up in /proc.  The pid of the failed child is unknown to the caller,
/// so scan /proc for processes whose parent is us and whose state is 'Z'.
#[test]
fn t4_no_zombie_visible_in_proc_after_failed_detached_launch() {
    let _g = serial();
    assert_clean_slate();

    let err = Exec::cmd(NO_SUCH_PROGRAM)
        .detached()
        .join()
        .expect_err("launching a nonexistent program must fail");
    assert_enoent(&err);

    let me = std::process::id();
    // Give a not-yet-exited child a moment to turn into a zombie.
    let deadline = Instant::now() + Duration::from_millis(500);
    let mut zombies;
    loop {
        zombies = Vec::new();
        let mut live_children = 0;
        for ent in std::fs::read_dir("/proc").unwrap().flatten() {
            let name = ent.file_name();
            let pid: u32 = match name.to_str().and_then(|s| s.parse().ok()) {
                Some(p) => p,
                None => continue,
            };
            let stat = match std::fs::read(format!("/proc/{}/stat", pid)) {
                Ok(s) => String::from_utf8_lossy(&s).into_owned(),
                Err(_) => continue,
            };
            // pid (comm) state ppid ...   -- comm may contain spaces/parens
            let rest = match stat.rfind(')') {
                Some(i) => &stat[i + 1..],
                None => continue,
            };
            let mut it = rest.split_whitespace();
            let state = it.next().unwrap_or("");
            let ppid: u32 = it.next().and_then(|s| s.parse().ok()).unwrap_or(0);
            if ppid == me {
                if state == "Z" {
                    zombies.push(pid);
                } else {
                    live_children += 1;
                }
            }
        }
        if live_children == 0 || Instant::now() >= deadline {
            break;
        }
        sleep(Duration::from_millis(5));
    }

    // Clean up for the benefit of later tests, whatever the outcome.
    let _ = leftover_children(Duration::from_secs(5));

    assert!(
        zombies.is_empty(),
        "/proc shows zombie child(ren) {:?} of pid {} after a failed detached launch",
        zombies,
        me
    );
}

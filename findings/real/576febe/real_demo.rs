//! Real-kernel demonstration: system calls interrupted by a signal handler.
//!
//! An application that has its own signal handling installs handlers with
//! `sigaction()`; unless it passes `SA_RESTART`, a blocking `waitpid()`,
//! `read()` or `write()` the signal arrives in fails with `EINTR` (and
//! `poll()` does so regardless of `SA_RESTART`).  The library has to repeat
//! the call.  When it does not:
//!
//!  * `Exec::join()` returns `Err(Interrupted)` long before the child is done
//!    and the child is left un-reaped;
//!  * dropping a `Popen` (which is documented to wait) returns at once and
//!    the child is left - a zombie as soon as it exits;
//!  * `capture()` fails with `ErrorKind::Interrupted` in the middle of the
//!    exchange.
//!
//! Each test runs the library call in a dedicated thread, and the test thread
//! sends SIGUSR1 to exactly that thread (`pthread_kill`) every 20 ms for as
//! long as the call has not returned.  The handler does nothing.
//!
//! Run with: cargo test --offline --test real_demo -- --test-threads=1
#![cfg(target_os = "linux")]

use std::fs;
use std::io::ErrorKind;
use std::mem;
use std::ptr;
use std::sync::atomic::{AtomicUsize, Ordering};
use std::sync::mpsc;
use std::thread;
use std::time::{Duration, Instant};

use subprocess::{Exec, ExitStatus, Popen, PopenConfig, PopenError, Redirection};

/// Number of times the handler has run (in any thread).
static HANDLED: AtomicUsize = AtomicUsize::new(0);

/// The application's signal handler: does nothing but count.
extern "C" fn on_usr1(_sig: libc::c_int) {
    HANDLED.fetch_add(1, Ordering::SeqCst);
}

/// Interval between two signals.
const PERIOD: Duration = Duration::from_millis(20);
/// Time left to the worker between "ready" and the first signal, so that the
/// first signal finds it inside the blocking call under test and not in the
/// process creation that precedes it.
const LEAD: Duration = Duration::from_millis(150);
/// Nothing here takes longer than this.
const HARD_LIMIT: Duration = Duration::from_secs(12);

// ---------------------------------------------------------------------------
// process bookkeeping

/// (pid, state) of the direct children of this process, from /proc.
fn children_of_self() -> Vec<(i32, char)> {
    let me = unsafe { libc::getpid() };
    let mut found = vec![];
    for entry in fs::read_dir("/proc").unwrap() {
        let entry = match entry {
            Ok(e) => e,
            Err(_) => continue,
        };
        let pid: i32 = match entry.file_name().to_string_lossy().parse() {
            Ok(pid) => pid,
            Err(_) => continue,
        };
        if let Some((state, ppid)) = proc_stat(pid) {
            if ppid == me {
                found.push((pid, state));
            }
        }
    }
    found.sort();
    found
}

/// (state, ppid) of a process, None when it does not exist.
fn proc_stat(pid: i32) -> Option<(char, i32)> {
    let stat = fs::read(format!("/proc/{}/stat", pid)).ok()?;
    let stat = String::from_utf8_lossy(&stat).into_owned();
    // pid (comm) state ppid ...   - comm may contain anything
    let rest = &stat[stat.rfind(')')? + 1..];
    let mut fields = rest.split_whitespace();
    let state = fields.next()?.chars().next()?;
    let ppid = fields.next()?.parse().ok()?;
    Some((state, ppid))
}

/// What the kernel says about our children: true when waitpid(-1) reports
/// that there is none (ECHILD).  Does not block.  (In the failing direction
/// this may reap a zombie, which only helps the clean-up.)
fn kernel_says_no_children() -> bool {
    let mut status = 0;
    loop {
        let r = unsafe { libc::waitpid(-1, &mut status, libc::WNOHANG) };
        if r == -1 {
            match std::io::Error::last_os_error().raw_os_error() {
                Some(libc::EINTR) => continue,
                Some(libc::ECHILD) => return true,
                other => panic!("waitpid(-1, WNOHANG): errno {:?}", other),
            }
        }
        return false;
    }
}

/// Kill and reap every child of this process.
fn kill_and_reap_all() {
    for (pid, _) in children_of_self() {
        unsafe { libc::kill(pid, libc::SIGKILL) };
    }
    let mut status = 0;
    loop {
        let r = unsafe { libc::waitpid(-1, &mut status, 0) };
        if r == -1 {
            match std::io::Error::last_os_error().raw_os_error() {
                Some(libc::EINTR) => continue,
                _ => break, // ECHILD: none left
            }
        }
    }
}

/// Sets the scene for one test and cleans up after it, also when the test
/// fails: children are killed and reaped, the SIGUSR1 disposition restored.
struct Scene {
    old: Option<libc::sigaction>,
}

impl Scene {
    fn new(with_handler: bool) -> Scene {
        // a previous test must not have left anything behind
        kill_and_reap_all();
        assert_eq!(children_of_self(), vec![]);
        let old = if with_handler {
            unsafe {
                let mut sa: libc::sigaction = mem::zeroed();
                sa.sa_sigaction = on_usr1 as extern "C" fn(libc::c_int) as usize;
                sa.sa_flags = 0; // no SA_RESTART
                libc::sigemptyset(&mut sa.sa_mask);
                let mut old: libc::sigaction = mem::zeroed();
                assert_eq!(libc::sigaction(libc::SIGUSR1, &sa, &mut old), 0);
                Some(old)
            }
        } else {
            None
        };
        Scene { old }
    }
}

impl Drop for Scene {
    fn drop(&mut self) {
        kill_and_reap_all();
        if let Some(old) = self.old.take() {
            unsafe { libc::sigaction(libc::SIGUSR1, &old, ptr::null_mut()) };
        }
    }
}

// ---------------------------------------------------------------------------
// running a library call under a shower of signals

struct Outcome<T> {
    /// What the library call returned.
    value: T,
    /// Time from "ready" to the return of the call.
    elapsed: Duration,
    /// Signals sent to the worker thread while the call was in progress.
    sent: usize,
    /// Handler invocations during that time.
    handled: usize,
}

/// Run `work` in a thread of its own.  `work` gets a function to call right
/// before it enters the blocking library call; from LEAD after that moment
/// until `work` returns, SIGUSR1 is sent to the worker thread every PERIOD
/// (when `signals` is set).
fn run_under_signals<T, F>(signals: bool, work: F) -> Outcome<T>
where
    T: Send + 'static,
    F: FnOnce(&dyn Fn()) -> T + Send + 'static,
{
    let (ready_tx, ready_rx) = mpsc::channel::<libc::pthread_t>();
    let (result_tx, result_rx) = mpsc::channel::<T>();
    let (release_tx, release_rx) = mpsc::channel::<()>();

    let worker = thread::spawn(move || {
        let ready = || {
            ready_tx.send(unsafe { libc::pthread_self() }).unwrap();
        };
        let value = work(&ready);
        result_tx.send(value).unwrap();
        // stay alive until the other side has stopped sending signals, so
        // that pthread_kill() always has a live target
        release_rx.recv().ok();
    });

    let tid = ready_rx
        .recv_timeout(HARD_LIMIT)
        .expect("worker never got ready");
    let start = Instant::now();
    let handled_before = HANDLED.load(Ordering::SeqCst);
    let mut sent = 0;

    let mut wait = LEAD;
    let value = loop {
        match result_rx.recv_timeout(wait) {
            Ok(value) => break value,
            Err(mpsc::RecvTimeoutError::Timeout) => (),
            Err(mpsc::RecvTimeoutError::Disconnected) => panic!("worker died"),
        }
        if start.elapsed() > HARD_LIMIT {
            panic!("library call still blocked after {:?}", HARD_LIMIT);
        }
        if signals {
            let r = unsafe { libc::pthread_kill(tid, libc::SIGUSR1) };
            assert_eq!(r, 0, "pthread_kill");
            sent += 1;
        }
        wait = PERIOD;
    };
    let elapsed = start.elapsed();
    let handled = HANDLED.load(Ordering::SeqCst) - handled_before;
    release_tx.send(()).unwrap();
    worker.join().unwrap();
    Outcome {
        value,
        elapsed,
        sent,
        handled,
    }
}

fn describe<T>(r: &Result<T, PopenError>) -> String {
    match r {
        Ok(_) => "Ok".to_string(),
        Err(PopenError::IoError(e)) => format!("Err(IoError(kind={:?}, {}))", e.kind(), e),
        Err(e) => format!("Err({:?})", e),
    }
}

fn is_interrupted<T>(r: &Result<T, PopenError>) -> bool {
    match r {
        Err(PopenError::IoError(e)) => e.kind() == ErrorKind::Interrupted,
        _ => false,
    }
}

/// If a child was left behind, wait until `sleep 1` is over and report what
/// has become of it.
fn fate_of_leftovers() -> String {
    let left = children_of_self();
    if left.is_empty() {
        return "no child left".to_string();
    }
    let deadline = Instant::now() + Duration::from_secs(3);
    loop {
        let now = children_of_self();
        let all_dead = now.iter().all(|&(_, state)| state == 'Z');
        if all_dead || Instant::now() > deadline {
            return format!(
                "children left right after the call: {:?}; once their time is up: {:?} \
                 (Z = zombie: exited, never waited for)",
                left, now
            );
        }
        thread::sleep(Duration::from_millis(50));
    }
}

// ---------------------------------------------------------------------------
// (4) control: no handler, no signals - passes with and without the defect

#[test]
fn t0_control_without_signals() {
    let _scene = Scene::new(false);

    let out = run_under_signals(false, |ready| {
        ready();
        Exec::cmd("sleep").arg("1").join()
    });
    assert!(
        matches!(out.value, Ok(ExitStatus::Exited(0))),
        "join(): {}",
        describe(&out.value)
    );
    assert!(out.elapsed >= Duration::from_millis(900), "{:?}", out.elapsed);
    assert_eq!(children_of_self(), vec![]);
    assert!(kernel_says_no_children());

    let out = run_under_signals(false, |ready| {
        let p = Popen::create(&["sleep", "1"], PopenConfig::default()).unwrap();
        ready();
        drop(p);
    });
    assert!(out.elapsed >= Duration::from_millis(900), "{:?}", out.elapsed);
    assert_eq!(children_of_self(), vec![]);
    assert!(kernel_says_no_children());

    let out = run_under_signals(false, |ready| {
        ready();
        Exec::cmd("sh")
            .arg("-c")
            .arg("sleep 1; echo hi")
            .stdout(Redirection::Pipe)
            .capture()
            .map(|c| (c.stdout_str(), c.exit_status))
    });
    match out.value {
        Ok((ref s, ExitStatus::Exited(0))) if s == "hi\n" => (),
        ref other => panic!("capture(): {}", describe(other)),
    }
    assert_eq!(children_of_self(), vec![]);
    assert!(kernel_says_no_children());
}

// ---------------------------------------------------------------------------
// (1) join(): waitpid() interrupted

#[test]
fn t1_join_while_signals_arrive() {
    let _scene = Scene::new(true);

    let out = run_under_signals(true, |ready| {
        ready();
        Exec::cmd("sleep").arg("1").join()
    });
    let fate = fate_of_leftovers();
    eprintln!(
        "join(): {} after {:?}; {} signals sent, {} handled; {}",
        describe(&out.value),
        out.elapsed,
        out.sent,
        out.handled,
        fate
    );
    assert!(out.handled >= 1, "no signal was delivered during the call");
    assert!(
        !is_interrupted(&out.value),
        "join() failed with EINTR after {:?} (the program runs for 1 s); {}",
        out.elapsed,
        fate
    );
    assert!(
        matches!(out.value, Ok(ExitStatus::Exited(0))),
        "join(): {}",
        describe(&out.value)
    );
    assert!(
        out.elapsed >= Duration::from_millis(900),
        "join() returned before the child was done: {:?}",
        out.elapsed
    );
    assert_eq!(children_of_self(), vec![], "a child is left after join()");
    assert!(kernel_says_no_children(), "a child is left after join()");
}

// ---------------------------------------------------------------------------
// (2) drop(Popen): waitpid() interrupted, error swallowed

#[test]
fn t2_drop_popen_while_signals_arrive() {
    let _scene = Scene::new(true);

    let out = run_under_signals(true, |ready| {
        let p = Popen::create(&["sleep", "1"], PopenConfig::default()).unwrap();
        let pid = p.pid().unwrap() as i32;
        ready();
        drop(p); // documented to wait for the child
        pid
    });
    let pid = out.value;
    let right_after = children_of_self();
    let fate = fate_of_leftovers();
    eprintln!(
        "drop(Popen) of pid {} took {:?}; {} signals sent, {} handled; {}",
        pid, out.elapsed, out.sent, out.handled, fate
    );
    assert!(out.handled >= 1, "no signal was delivered during the call");
    assert_eq!(
        right_after,
        vec![],
        "drop(Popen) returned after {:?} without having reaped the child; {}",
        out.elapsed,
        fate
    );
    assert!(
        out.elapsed >= Duration::from_millis(900),
        "drop(Popen) did not wait for the child: {:?}",
        out.elapsed
    );
    assert!(proc_stat(pid).map_or(true, |(_, ppid)| ppid != unsafe { libc::getpid() }));
    assert!(kernel_says_no_children(), "a child is left after drop(Popen)");
}

// ---------------------------------------------------------------------------
// (3) capture(): read() resp. poll() interrupted

#[test]
fn t3_capture_one_stream_while_signals_arrive() {
    let _scene = Scene::new(true);

    // a single stream and no time limit: the communicator goes straight to
    // read(), which is where the signals find it
    let out = run_under_signals(true, |ready| {
        ready();
        Exec::cmd("sh")
            .arg("-c")
            .arg("sleep 1; echo hi")
            .stdout(Redirection::Pipe)
            .capture()
            .map(|c| (c.stdout_str(), c.exit_status))
    });
    let fate = fate_of_leftovers();
    eprintln!(
        "capture(): {} after {:?}; {} signals sent, {} handled; {}",
        match &out.value {
            Ok(v) => format!("Ok({:?})", v),
            e => describe(e),
        },
        out.elapsed,
        out.sent,
        out.handled,
        fate
    );
    assert!(out.handled >= 1, "no signal was delivered during the call");
    assert!(
        !is_interrupted(&out.value),
        "capture() failed with ErrorKind::Interrupted after {:?}; {}",
        out.elapsed,
        fate
    );
    match out.value {
        Ok((ref s, ExitStatus::Exited(0))) if s == "hi\n" => (),
        ref other => panic!("capture(): {}", describe(other)),
    }
    assert_eq!(children_of_self(), vec![], "a child is left after capture()");
    assert!(kernel_says_no_children(), "a child is left after capture()");
}

#[test]
fn t4_capture_two_streams_while_signals_arrive() {
    let _scene = Scene::new(true);

    // two streams: the communicator sits in poll(), which no SA_RESTART
    // would have restarted either
    let out = run_under_signals(true, |ready| {
        ready();
        Exec::cmd("sh")
            .arg("-c")
            .arg("sleep 1; echo hi; echo there >&2")
            .stdout(Redirection::Pipe)
            .stderr(Redirection::Pipe)
            .capture()
            .map(|c| (c.stdout_str(), c.stderr_str(), c.exit_status))
    });
    let fate = fate_of_leftovers();
    eprintln!(
        "capture(): {} after {:?}; {} signals sent, {} handled; {}",
        match &out.value {
            Ok(v) => format!("Ok({:?})", v),
            e => describe(e),
        },
        out.elapsed,
        out.sent,
        out.handled,
        fate
    );
    assert!(out.handled >= 1, "no signal was delivered during the call");
    assert!(
        !is_interrupted(&out.value),
        "capture() failed with ErrorKind::Interrupted after {:?}; {}",
        out.elapsed,
        fate
    );
    match out.value {
        Ok((ref o, ref e, ExitStatus::Exited(0))) if o == "hi\n" && e == "there\n" => (),
        ref other => panic!("capture(): {}", describe(other)),
    }
    assert_eq!(children_of_self(), vec![], "a child is left after capture()");
    assert!(kernel_says_no_children(), "a child is left after capture()");
}

#[test]
fn t5_communicate_with_time_limit_while_signals_arrive() {
    let _scene = Scene::new(true);

    // with a time limit poll() is used for a single stream too; after an
    // interruption it has to go on waiting for the rest of the time
    let out = run_under_signals(true, |ready| {
        let mut p = Exec::cmd("sh")
            .arg("-c")
            .arg("sleep 1; echo hi")
            .stdout(Redirection::Pipe)
            .popen()
            .unwrap();
        ready();
        let r = p
            .communicate_start(None)
            .limit_time(Duration::from_secs(5))
            .read_string()
            .map(|(o, _)| o)
            .map_err(|e| (e.kind(), e.to_string()));
        let status = p.wait();
        (r, status.ok())
    });
    eprintln!(
        "read_string(): {:?} after {:?}; {} signals sent, {} handled",
        out.value, out.elapsed, out.sent, out.handled
    );
    assert!(out.handled >= 1, "no signal was delivered during the call");
    let (r, status) = out.value;
    assert_eq!(r, Ok(Some("hi\n".to_string())));
    assert_eq!(status, Some(ExitStatus::Exited(0)));
    assert_eq!(children_of_self(), vec![]);
    assert!(kernel_says_no_children());
}

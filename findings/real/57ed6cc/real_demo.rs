//! Real-kernel demonstration: `Redirection::Merge` requested for BOTH stdout
//! and stderr must be refused with `PopenError::LogicError`, and no child
//! process may be started.
//!
//! With the defect, the second `Merge` silently overwrote the first, the
//! child was spawned (stderr merged into the parent's stdout) and the call
//! returned `Ok`.  Each test uses a marker file which the child program would
//! create if it were ever executed.

#![cfg(unix)]

use std::path::Path;
use std::time::Duration;

use subprocess::{Exec, Popen, PopenConfig, PopenError, Redirection};

/// If the process was (wrongly) started, reap it so the marker file check that
/// follows is deterministic, and report how it ended.
fn reap(mut p: Popen) -> String {
    match p.wait_timeout(Duration::from_secs(10)) {
        Ok(Some(status)) => format!("{:?}", status),
        Ok(None) => {
            let _ = p.kill();
            let _ = p.wait();
            "still running after 10 s (killed)".to_string()
        }
        Err(e) => format!("wait failed: {}", e),
    }
}

fn check_refused(result: Result<Popen, PopenError>, marker: &Path, what: &str) {
    match result {
        Err(PopenError::LogicError(msg)) => {
            assert!(
                msg.contains("Merge"),
                "{}: LogicError with unexpected message {:?}",
                what,
                msg
            );
            // Give a (non-existent) child no excuse: the marker must not
            // appear even a little later.
            std::thread::sleep(Duration::from_millis(200));
            assert!(
                !marker.exists(),
                "{}: LogicError was returned, yet the program ran (marker {:?} exists)",
                what,
                marker
            );
        }
        Err(other) => panic!("{}: expected LogicError, got {:?}", what, other),
        Ok(p) => {
            let pid = p.pid();
            let status = reap(p);
            panic!(
                "{}: Merge for both stdout and stderr was accepted and a process was \
                 started (pid {:?}, ended with {}); marker file created by it exists: {}",
                what,
                pid,
                status,
                marker.exists()
            );
        }
    }
}

#[test]
fn popen_create_merge_both_is_refused_and_nothing_runs() {
    let dir = tempfile::tempdir().unwrap();
    let marker = dir.path().join("ran-popen-create");

    let result = Popen::create(
        &[Path::new("touch"), marker.as_path()],
        PopenConfig {
            stdout: Redirection::Merge,
            stderr: Redirection::Merge,
            ..Default::default()
        },
    );
    check_refused(result, &marker, "Popen::create(touch)");
}

#[test]
fn exec_builder_merge_both_is_refused_and_nothing_runs() {
    let dir = tempfile::tempdir().unwrap();
    let marker = dir.path().join("ran-exec-builder");

    let result = Exec::cmd("sh")
        .arg("-c")
        .arg("touch \"$0\"; echo to-stdout; echo to-stderr >&2")
        .arg(&marker)
        .stdout(Redirection::Merge)
        .stderr(Redirection::Merge)
        .popen();
    check_refused(result, &marker, "Exec::cmd(sh).popen()");
}

#[test]
fn exec_builder_join_merge_both_is_refused_and_nothing_runs() {
    let dir = tempfile::tempdir().unwrap();
    let marker = dir.path().join("ran-exec-join");

    let result = Exec::cmd("touch")
        .arg(&marker)
        .stdout(Redirection::Merge)
        .stderr(Redirection::Merge)
        .join();
    match result {
        Err(PopenError::LogicError(_)) => {}
        other => panic!(
            "Exec::join(): expected LogicError, got {:?}; marker exists: {}",
            other,
            marker.exists()
        ),
    }
    assert!(!marker.exists(), "Exec::join(): the program ran");
}

/// Control (passes with and without the defect): a single `Merge` is legal,
/// does start the process, and really merges stderr into stdout.  This shows
/// the marker-file technique does detect a started process.
#[test]
fn control_single_merge_still_works() {
    let dir = tempfile::tempdir().unwrap();
    let marker = dir.path().join("ran-control");

    let capture = Exec::cmd("sh")
        .arg("-c")
        .arg("touch \"$0\"; echo to-stdout; echo to-stderr >&2")
        .arg(&marker)
        .stdout(Redirection::Pipe)
        .stderr(Redirection::Merge)
        .capture()
        .expect("single Merge must be accepted");
    assert!(capture.success());
    assert!(marker.exists(), "control: the program should have run");
    let out = capture.stdout_str();
    assert!(out.contains("to-stdout"), "stdout was {:?}", out);
    assert!(out.contains("to-stderr"), "stdout was {:?}", out);
}

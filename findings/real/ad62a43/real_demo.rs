//! Real-kernel demonstration of the "PATH consists only of empty entries"
//! defect (see FIX_COMMIT_MESSAGE.txt / REAL_DEMO.md).
//!
//! With PATH set to ":" (or "::") and a command without a slash, the PATH
//! candidate loop in `posix::PrepExec::exec` runs zero times.
//!
//!  * On HEAD that yields ENOENT, the forked child reports it through the
//!    exec-fail pipe and `_exit(127)`s, and `Popen::create` returns
//!    `Err(IoError(ENOENT))`.
//!  * With the defect, `exec()` returns `Ok(())` *in the forked child*, which
//!    hits `unreachable!()`: the panic unwinds out of the library in the child
//!    (a second copy of this test program), the exec-fail pipe is closed
//!    without an error code, and the parent's `Popen::create` returns `Ok`
//!    although no program was ever started.
//!
//! The escaped child is made observable but harmless: the call is wrapped in
//! `catch_unwind`, and whoever comes out of it with a pid different from the
//! one recorded before the call writes a marker file (raw syscalls only, all
//! buffers prepared in advance) and `_exit(0)`s at once.
//!
//! Run single-threaded: the tests modify the process-wide PATH.
//!   cargo test --offline --test real_demo -- --test-threads=1

#![cfg(unix)]

use std::ffi::{CString, OsString};
use std::os::unix::ffi::OsStrExt;
use std::panic::{catch_unwind, AssertUnwindSafe};
use std::path::PathBuf;
use std::time::Duration;

use subprocess::{Exec, ExitStatus, Popen, PopenConfig, PopenError, Redirection};

/// Restores PATH when dropped (also when an assertion fails).
struct PathGuard(Option<OsString>);

impl PathGuard {
    fn set(value: &str) -> PathGuard {
        let old = std::env::var_os("PATH");
        std::env::set_var("PATH", value);
        PathGuard(old)
    }
}

impl Drop for PathGuard {
    fn drop(&mut self) {
        match self.0.take() {
            Some(old) => std::env::set_var("PATH", old),
            None => std::env::remove_var("PATH"),
        }
    }
}

struct Outcome {
    /// What the *original* process got back from the library.
    result: Result<Popen, PopenError>,
    /// Did a forked copy of the test program escape from the library call?
    child_escaped: bool,
    /// Contents of the marker file written by the escaped copy, if any.
    marker_text: String,
}

/// Run `start` (a library call that forks) with PATH set to `path`, and
/// neutralize + detect a child that escapes from it.
fn run_with_path(
    path: &str,
    tag: &str,
    start: impl FnOnce() -> Result<Popen, PopenError>,
) -> Outcome {
    let dir = tempfile::tempdir().unwrap();
    let marker: PathBuf = dir.path().join(format!("escaped-child-{}", tag));
    // Everything the escaped child needs is allocated before the fork.
    let marker_c = CString::new(marker.as_os_str().as_bytes()).unwrap();
    let note: &[u8] = b"forked copy of the test program escaped from Popen::create\n";

    let _guard = PathGuard::set(path);
    let my_pid = unsafe { libc::getpid() };

    let caught = catch_unwind(AssertUnwindSafe(start));

    if unsafe { libc::getpid() } != my_pid {
        // We are the forked child and we are still running the test program:
        // this must never happen.  Leave a marker and vanish immediately,
        // without running destructors, atexit handlers or the test harness.
        unsafe {
            let fd = libc::open(
                marker_c.as_ptr(),
                libc::O_WRONLY | libc::O_CREAT | libc::O_TRUNC,
                0o644 as libc::c_uint,
            );
            if fd >= 0 {
                libc::write(fd, note.as_ptr() as *const libc::c_void, note.len());
                libc::close(fd);
            }
            libc::_exit(0);
        }
    }

    // Only the original test process gets here.
    let mut result = match caught {
        Ok(r) => r,
        Err(_) => panic!("the library call panicked in the parent process"),
    };

    // If something was "started", wait for it so that the marker (written
    // before the escaped child's _exit) is guaranteed to be visible.
    if let Ok(ref mut p) = result {
        let status = p
            .wait_timeout(Duration::from_secs(10))
            .expect("wait_timeout failed");
        if status.is_none() {
            p.kill().ok();
            p.wait().ok();
            panic!("the process reported as started did not finish in 10 s");
        }
    }

    let child_escaped = marker.exists();
    let marker_text = std::fs::read_to_string(&marker).unwrap_or_default();
    Outcome {
        result,
        child_escaped,
        marker_text,
    }
}

fn check_enoent_and_no_escape(path: &str, out: Outcome) {
    // Check the escape first: it is the more spectacular symptom.
    assert!(
        !out.child_escaped,
        "PATH={:?}: DEFECT: the forked child unwound out of the library and kept running as a \
         second copy of the test program (marker: {:?}); the parent got {:?}",
        path,
        out.marker_text.trim(),
        out.result.as_ref().map(|p| (p.pid(), p.exit_status())),
    );
    match out.result {
        Err(PopenError::IoError(ref e)) => assert_eq!(
            e.raw_os_error(),
            Some(libc::ENOENT),
            "PATH={:?}: expected ENOENT, got {:?}",
            path,
            e
        ),
        Err(ref e) => panic!("PATH={:?}: expected an OS error (ENOENT), got {:?}", path, e),
        Ok(ref p) => panic!(
            "PATH={:?}: DEFECT: create() returned Ok (pid {:?}, exit status {:?}) although no \
             program can have been started",
            path,
            p.pid(),
            p.exit_status()
        ),
    }
}

/// PATH=":" -- `Popen::create` must fail with ENOENT and no copy of the
/// calling program may survive the call.
#[test]
fn popen_create_with_path_colon() {
    let out = run_with_path(":", "colon", || {
        Popen::create(&["true"], PopenConfig::default())
    });
    check_enoent_and_no_escape(":", out);
}

/// PATH="::" through the builder API, with a redirected stdout so that the
/// child also goes through the stream setup.
#[test]
fn exec_popen_with_path_double_colon() {
    let out = run_with_path("::", "double-colon", || {
        Exec::cmd("true").stdout(Redirection::Pipe).popen()
    });
    check_enoent_and_no_escape("::", out);
}

/// Same PATH, but a command name that does not exist anywhere: with the
/// defect even that is reported as successfully started.
#[test]
fn nonexistent_command_with_path_colon() {
    let out = run_with_path(":", "nonexistent", || {
        Popen::create(
            &["no-such-command-d41d8cd98f00b204"],
            PopenConfig::default(),
        )
    });
    check_enoent_and_no_escape(":", out);
}

/// Control: empty entries around a usable one are skipped and the command is
/// found.  Passes with and without the defect, and shows that the helper
/// itself does not produce false alarms.
#[test]
fn control_path_with_one_usable_entry() {
    let out = run_with_path(":/bin:", "control", || {
        Popen::create(&["true"], PopenConfig::default())
    });
    assert!(!out.child_escaped, "marker: {:?}", out.marker_text);
    let p = out.result.expect("true must be found in /bin");
    assert_eq!(p.exit_status(), Some(ExitStatus::Exited(0)));
}

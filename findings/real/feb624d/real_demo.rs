//! Real-kernel demonstration: `Communicator::read()` must honor `limit_time()`
//! even while the child keeps a stream continuously ready.
//!
//! The Unix implementation only consulted the deadline through the timeout
//! argument of poll(2).  poll() returns immediately, without timing out, as
//! long as at least one descriptor is ready, so a child that keeps its output
//! pipe non-empty - or data that is already sitting in the pipe when a zero
//! time limit is requested - kept the read loop going far past the limit.
//!
//! Every test uses real child processes and real pipes.  Safety measures:
//!  * children run in their own process group (`setpgid`) and the whole group
//!    is SIGKILLed on every exit path;
//!  * a "reaper" thread kills the group after 3 s, or earlier if the resident
//!    set of the test process has grown by more than `RSS_CAP`, so that the
//!    defective library cannot accumulate output without bound (killing the
//!    writers produces EOF, the only thing that stops the defective loop);
//!  * the test body runs on a worker thread and the main thread fails the
//!    test if the body takes more than ~10 s.

#![cfg(unix)]

use std::io::ErrorKind;
use std::os::unix::io::AsRawFd;
use std::sync::atomic::{AtomicBool, Ordering};
use std::sync::{mpsc, Arc, Mutex};
use std::thread;
use std::time::{Duration, Instant};

use subprocess::{CommunicateError, Popen, PopenConfig, Redirection};

/// Kill the children when the test process has grown by this much.
const RSS_CAP: usize = 768 << 20;
/// Kill the children unconditionally after this long.
const REAP_AFTER: Duration = Duration::from_secs(3);
/// Overall per-test watchdog.
const WATCHDOG: Duration = Duration::from_secs(10);

fn rss_bytes() -> usize {
    let statm = std::fs::read_to_string("/proc/self/statm").unwrap_or_default();
    let pages: usize = statm
        .split_whitespace()
        .nth(1)
        .and_then(|s| s.parse().ok())
        .unwrap_or(0);
    pages * 4096
}

/// SIGKILL the process group led by `pid` (children are started with
/// `setpgid: true`, so pgid == pid).
fn kill_group(pid: u32) {
    unsafe {
        libc::kill(-(pid as libc::pid_t), libc::SIGKILL);
    }
}

/// Number of bytes currently buffered in the pipe (FIONREAD).
fn pipe_pending(f: &std::fs::File) -> usize {
    let mut n: libc::c_int = 0;
    let rc = unsafe { libc::ioctl(f.as_raw_fd(), libc::FIONREAD, &mut n) };
    assert_eq!(rc, 0, "FIONREAD failed");
    n as usize
}

fn wait_pending(f: &std::fs::File, at_least: usize) {
    let start = Instant::now();
    while pipe_pending(f) < at_least {
        assert!(
            start.elapsed() < Duration::from_secs(5),
            "child did not produce {} bytes in 5 s",
            at_least
        );
        thread::sleep(Duration::from_millis(5));
    }
}

#[derive(Debug, PartialEq, Clone, Copy)]
enum Reaped {
    No,
    AfterTimeout,
    AtRssCap,
}

struct Reaper {
    done: Arc<AtomicBool>,
    handle: Option<thread::JoinHandle<Reaped>>,
}

impl Reaper {
    /// Kill the group of `pid` after `REAP_AFTER` or once RSS grew by `RSS_CAP`.
    fn start(pid: u32) -> Reaper {
        let done = Arc::new(AtomicBool::new(false));
        let done2 = Arc::clone(&done);
        let base = rss_bytes();
        let handle = thread::spawn(move || {
            let start = Instant::now();
            loop {
                if done2.load(Ordering::SeqCst) {
                    return Reaped::No;
                }
                if start.elapsed() >= REAP_AFTER {
                    kill_group(pid);
                    return Reaped::AfterTimeout;
                }
                if rss_bytes().saturating_sub(base) >= RSS_CAP {
                    kill_group(pid);
                    return Reaped::AtRssCap;
                }
                thread::sleep(Duration::from_millis(5));
            }
        });
        Reaper {
            done,
            handle: Some(handle),
        }
    }

    fn finish(mut self) -> Reaped {
        self.done.store(true, Ordering::SeqCst);
        self.handle.take().unwrap().join().unwrap()
    }
}

/// Run `body` on a worker thread; fail if it does not finish in `WATCHDOG`.
/// `body` publishes the child's pid in the slot so that the watchdog can kill
/// the process group on timeout.
fn with_watchdog<F>(body: F)
where
    F: FnOnce(&Mutex<Option<u32>>) + Send + 'static,
{
    let pid_slot = Arc::new(Mutex::new(None));
    let slot2 = Arc::clone(&pid_slot);
    let (tx, rx) = mpsc::channel();
    let worker = thread::spawn(move || {
        body(&slot2);
        let _ = tx.send(());
    });
    match rx.recv_timeout(WATCHDOG) {
        Ok(()) => worker.join().unwrap(),
        Err(mpsc::RecvTimeoutError::Disconnected) => {
            // the body panicked: propagate its panic
            if let Err(e) = worker.join() {
                std::panic::resume_unwind(e);
            }
        }
        Err(mpsc::RecvTimeoutError::Timeout) => {
            if let Some(pid) = *pid_slot.lock().unwrap() {
                kill_group(pid);
            }
            panic!("watchdog: test body still running after {:?}", WATCHDOG);
        }
    }
}

fn spawn(argv: &[&str], pid_slot: &Mutex<Option<u32>>) -> Popen {
    let p = Popen::create(
        argv,
        PopenConfig {
            stdout: Redirection::Pipe,
            setpgid: true,
            ..Default::default()
        },
    )
    .expect("spawn");
    *pid_slot.lock().unwrap() = p.pid();
    p
}

fn cleanup(mut p: Popen) {
    if let Some(pid) = p.pid() {
        kill_group(pid);
    }
    let _ = p.kill();
    let _ = p.wait();
}

/// (error kind or None for Ok, number of stdout bytes captured)
fn summarize(
    r: Result<(Option<Vec<u8>>, Option<Vec<u8>>), CommunicateError>,
) -> (Option<ErrorKind>, usize) {
    match r {
        Ok((out, _)) => (None, out.map(|v| v.len()).unwrap_or(0)),
        Err(e) => (Some(e.kind()), e.capture.0.map(|v| v.len()).unwrap_or(0)),
    }
}

/// Four processes that write to the same stdout pipe as fast as they can and
/// never sleep (non-blocking write in a loop), so that the pipe is readable
/// every single time the parent polls it.
const WRITERS: &str = r#"
import os, fcntl
fcntl.fcntl(1, fcntl.F_SETFL, fcntl.fcntl(1, fcntl.F_GETFL) | os.O_NONBLOCK)
for _ in range(3):
    if os.fork() == 0:
        break
buf = b"y\n" * 32768
while True:
    try:
        os.write(1, buf)
    except BlockingIOError:
        pass
"#;

/// Children that write without pause keep stdout permanently readable.
/// `limit_time(200ms)` must still make `read()` return `TimedOut` at about
/// 200 ms.
///
/// With the defect, poll() never gets to time out, so read() keeps
/// accumulating output (roughly 1 GB/s here) until the reaper kills the
/// writers because the test process has grown by 768 MiB (or after 3 s);
/// only then does read() return - with `Ok` when it hits EOF, or with a very
/// late `TimedOut` if it happens to find the pipe momentarily empty.
///
/// To keep the pipe non-empty at *every* poll (a single blocking `yes` on a
/// 64 KiB pipe is occasionally drained by the parent on a VM because of
/// wake-up latency, which makes the overshoot random), the pipe is enlarged
/// to 1 MiB and fed by four busy-looping writers.
#[test]
fn time_limit_honored_while_children_write_continuously() {
    with_watchdog(|pid_slot| {
        const LIMIT: Duration = Duration::from_millis(200);
        const PIPE_SIZE: libc::c_int = 1 << 20;

        let mut p = spawn(&["python3", "-c", WRITERS], pid_slot);
        let pid = p.pid().unwrap();
        {
            let out = p.stdout.as_ref().unwrap();
            let rc = unsafe { libc::fcntl(out.as_raw_fd(), libc::F_SETPIPE_SZ, PIPE_SIZE) };
            assert!(rc >= PIPE_SIZE, "F_SETPIPE_SZ: {}", rc);
            // wait until the writers are up and the pipe is well filled
            wait_pending(out, 512 << 10);
        }

        let mut comm = p.communicate_start(None).limit_time(LIMIT);
        let reaper = Reaper::start(pid);
        let start = Instant::now();
        let result = comm.read();
        let elapsed = start.elapsed();
        let reaped = reaper.finish();

        // Summarize and free the (possibly huge) capture before asserting.
        let (kind, captured) = summarize(result);
        drop(comm);
        cleanup(p);

        eprintln!(
            "continuous writers: limit={:?} elapsed={:?} result={} captured={} bytes reaper={:?}",
            LIMIT,
            elapsed,
            match kind {
                None => "Ok".to_string(),
                Some(k) => format!("Err({:?})", k),
            },
            captured,
            reaped,
        );

        assert_eq!(
            reaped,
            Reaped::No,
            "read() ran until the reaper had to kill the writers ({:?} elapsed, \
             limit {:?}, {} bytes captured)",
            elapsed,
            LIMIT,
            captured
        );
        assert_eq!(
            kind,
            Some(ErrorKind::TimedOut),
            "read() must fail with TimedOut; never-ending writers cannot reach EOF"
        );
        assert!(elapsed >= LIMIT, "returned before the limit: {:?}", elapsed);
        assert!(
            elapsed < LIMIT + Duration::from_millis(300),
            "read() overshot the {:?} limit: {:?}",
            LIMIT,
            elapsed
        );
    });
}

/// Zero time limit while plain `yes` has filled the (default, 64 KiB) pipe:
/// read() may do one round of I/O (4096 bytes) but then has to report the
/// timeout.
///
/// With the defect, poll(timeout=0) keeps reporting the pipe readable, so
/// read() goes on for as long as `yes` manages to keep the pipe non-empty:
/// at the very least the 64 KiB that were pending, typically tens of MB.
#[test]
fn zero_time_limit_with_yes() {
    with_watchdog(|pid_slot| {
        let mut p = spawn(&["yes"], pid_slot);
        let pid = p.pid().unwrap();
        wait_pending(p.stdout.as_ref().unwrap(), 32768);

        let mut comm = p.communicate_start(None).limit_time(Duration::from_secs(0));
        let reaper = Reaper::start(pid);
        let start = Instant::now();
        let result = comm.read();
        let elapsed = start.elapsed();
        let reaped = reaper.finish();

        let (kind, captured) = summarize(result);
        drop(comm);
        cleanup(p);

        eprintln!(
            "zero limit, yes: elapsed={:?} result={:?} captured={} bytes reaper={:?}",
            elapsed, kind, captured, reaped
        );

        assert_eq!(
            reaped,
            Reaped::No,
            "read() with a zero time limit ran until `yes` was killed \
             ({:?}, {} bytes captured)",
            elapsed,
            captured
        );
        assert_eq!(kind, Some(ErrorKind::TimedOut));
        // one 4096-byte round of I/O is all a zero limit allows
        assert!(
            captured <= 4096,
            "read() with a zero time limit kept reading for {:?} and captured {} bytes",
            elapsed,
            captured
        );
    });
}

/// Fully deterministic variant: the child puts exactly 60000 bytes in the
/// pipe (less than the 64 KiB pipe capacity, so it does not block) and then
/// sleeps.  We wait until FIONREAD reports all 60000 bytes pending and then
/// read with a zero time limit.
///
/// Correct behavior: one round of I/O (4096 bytes), then TimedOut; the rest
/// stays in the pipe for the following read() calls.  With the defect, every
/// poll() finds the pipe readable, so read() swallows all 60000 bytes in 15
/// rounds before poll() finally has nothing ready and "times out".
#[test]
fn zero_time_limit_with_pending_data_does_one_round() {
    with_watchdog(|pid_slot| {
        const TOTAL: usize = 60000;

        let mut p = spawn(
            &["sh", "-c", "head -c 60000 /dev/zero; exec sleep 30"],
            pid_slot,
        );
        wait_pending(p.stdout.as_ref().unwrap(), TOTAL);

        let mut comm = p.communicate_start(None).limit_time(Duration::from_secs(0));
        let start = Instant::now();
        let first = comm.read();
        let elapsed = start.elapsed();
        let (kind, captured) = summarize(first);

        // The rest must remain retrievable by further reads.
        let mut total = captured;
        let mut calls = 1;
        while total < TOTAL && calls < 100 {
            let (_, n) = summarize(comm.read());
            if n == 0 {
                break;
            }
            total += n;
            calls += 1;
        }
        drop(comm);
        cleanup(p);

        eprintln!(
            "zero limit, {} bytes pending: first read() -> {:?}, {} bytes in {:?}; \
             {} bytes in total after {} read() calls",
            TOTAL, kind, captured, elapsed, total, calls
        );

        assert_eq!(kind, Some(ErrorKind::TimedOut));
        assert!(
            captured <= 4096,
            "read() with a zero time limit kept reading while data was pending: \
             captured {} of {} bytes instead of at most one 4096-byte round",
            captured,
            TOTAL
        );
        assert_eq!(total, TOTAL, "data lost across resumed reads");
    });
}

// Real-kernel demonstration: a NUL byte in `PopenConfig::executable`.
//
// Arguments and environment entries containing a NUL byte are rejected with
// EINVAL.  The program name given through `PopenConfig::executable` must be
// treated the same way: if it is handed to exec() as is, the C string ends at
// the NUL, so "/dir/prog\0x" silently starts "/dir/prog" - a program other
// than the one that was asked for.
//
// Every test here uses real fork/exec through the public API.  Expected
// behavior: `Popen::create` fails with EINVAL and no child program runs.

#![cfg(unix)]

use std::ffi::OsString;
use std::fs;
use std::os::unix::ffi::{OsStrExt, OsStringExt};
use std::os::unix::fs::PermissionsExt;
use std::path::Path;
use std::time::Duration;

use subprocess::{ExitStatus, Popen, PopenConfig, PopenError, Redirection};

/// Build an OsString consisting of `prefix`, a NUL byte and `suffix`.
fn with_nul(prefix: &[u8], suffix: &[u8]) -> OsString {
    let mut v = prefix.to_vec();
    v.push(0);
    v.extend_from_slice(suffix);
    OsString::from_vec(v)
}

/// Reap the child (if one was started after all) and describe what it did, so
/// that the failure message shows what the kernel really executed.
fn describe_unexpected_child(mut p: Popen) -> String {
    let pid = p.pid();
    let (out, _err) = p.communicate(None).unwrap_or((None, None));
    let status = match p.wait_timeout(Duration::from_secs(10)) {
        Ok(Some(st)) => format!("{:?}", st),
        other => {
            let _ = p.kill();
            let _ = p.wait();
            format!("did not exit in time ({:?})", other)
        }
    };
    format!(
        "a child was started (pid {:?}), exit status {}, stdout {:?}",
        pid, status, out
    )
}

fn assert_einval(result: Result<Popen, PopenError>, what: &str) {
    match result {
        Err(PopenError::IoError(e)) => assert_eq!(
            e.raw_os_error(),
            Some(libc_einval()),
            "{}: expected EINVAL, got {:?}",
            what,
            e
        ),
        Err(other) => panic!("{}: expected IoError(EINVAL), got {:?}", what, other),
        Ok(p) => panic!(
            "{}: executable name containing NUL was not rejected: {}",
            what,
            describe_unexpected_child(p)
        ),
    }
}

fn libc_einval() -> i32 {
    // EINVAL is 22 on every Unix this crate supports (Linux, *BSD, macOS).
    22
}

/// Write an executable shell script to `path`.
fn write_script(path: &Path, body: &str) {
    fs::write(path, format!("#!/bin/sh\n{}\n", body)).unwrap();
    fs::set_permissions(path, fs::Permissions::from_mode(0o755)).unwrap();
}

// An absolute program name with an embedded NUL.  With the defect the kernel
// sees "<tmp>/prog", runs the script, and the script leaves a marker file.
#[test]
fn nul_in_absolute_executable_is_rejected_and_nothing_runs() {
    let dir = tempfile::tempdir().unwrap();
    let prog = dir.path().join("prog");
    let marker = dir.path().join("marker");
    write_script(
        &prog,
        &format!("echo ran > '{}'\necho TRUNCATED-PROG-RAN\nexit 7", marker.display()),
    );

    let exe = with_nul(prog.as_os_str().as_bytes(), b"x");
    assert!(exe.as_bytes().contains(&0));

    let result = Popen::create(
        &["prog"],
        PopenConfig {
            executable: Some(exe),
            stdout: Redirection::Pipe,
            ..Default::default()
        },
    );
    let outcome = match result {
        Ok(p) => Err(describe_unexpected_child(p)),
        Err(e) => Ok(e),
    };
    // Whatever happened, the truncated program must not have been executed.
    assert!(
        !marker.exists(),
        "the program named by the part before the NUL was executed ({:?})",
        outcome
    );
    match outcome {
        Ok(PopenError::IoError(e)) => {
            assert_eq!(e.raw_os_error(), Some(libc_einval()), "got {:?}", e)
        }
        other => panic!("expected IoError(EINVAL), got {:?}", other),
    }
}

// Same with a well-known system binary: "/bin/sh\0-no-such-suffix".
#[test]
fn nul_in_bin_sh_executable_is_rejected() {
    let exe = with_nul(b"/bin/sh", b"-no-such-suffix");
    let result = Popen::create(
        &["sh", "-c", "echo SHELL-RAN; exit 3"],
        PopenConfig {
            executable: Some(exe),
            stdout: Redirection::Pipe,
            ..Default::default()
        },
    );
    assert_einval(result, "/bin/sh\\0-no-such-suffix");
}

// A bare name (no slash) goes through the PATH search; each candidate
// "<dir>/sh\0zzz" would likewise be cut at the NUL and run "<dir>/sh".
#[test]
fn nul_in_path_searched_executable_is_rejected() {
    let exe = with_nul(b"sh", b"zzz");
    let result = Popen::create(
        &["sh", "-c", "echo SHELL-RAN; exit 3"],
        PopenConfig {
            executable: Some(exe),
            stdout: Redirection::Pipe,
            ..Default::default()
        },
    );
    assert_einval(result, "sh\\0zzz");
}

// A NUL right at the start: exec would see the empty string.  (Even with the
// defect nothing is started here, but the error must be EINVAL like for
// arguments, not whatever exec("") reports.)
#[test]
fn leading_nul_executable_is_einval() {
    let exe = with_nul(b"", b"/bin/sh");
    let result = Popen::create(
        &["sh", "-c", "exit 0"],
        PopenConfig {
            executable: Some(exe),
            ..Default::default()
        },
    );
    assert_einval(result, "\\0/bin/sh");
}

// Control: a clean `executable` still works and overrides argv[0], so the
// rejection above is due to the NUL and not to `executable` being unusable.
#[test]
fn control_clean_executable_runs() {
    let mut p = Popen::create(
        &["not-a-real-name", "-c", "echo CONTROL-OK; exit 5"],
        PopenConfig {
            executable: Some(OsString::from("/bin/sh")),
            stdout: Redirection::Pipe,
            ..Default::default()
        },
    )
    .expect("clean executable must start");
    let (out, _) = p.communicate(None).unwrap();
    assert_eq!(out.as_deref(), Some("CONTROL-OK\n"));
    assert_eq!(
        p.wait_timeout(Duration::from_secs(10)).unwrap(),
        Some(ExitStatus::Exited(5))
    );
}

//! Real-kernel demonstration: dropping the reader returned by
//! `Exec::stream_stdout()`, `Exec::stream_stderr()` or
//! `Pipeline::stream_stdout()` must not hang when the child still has
//! (unbounded) output to write.
//!
//! The child is `yes`, which writes forever.  We read a little of its output
//! and then drop the reader.  Dropping waits for the child.  If the read end
//! of the pipe is still open during that wait, `yes` fills the 64 KiB pipe
//! buffer, blocks in write(2) forever, never exits, and the drop never
//! returns.  If the read end is closed first, `yes` gets SIGPIPE/EPIPE on its
//! next write, dies, and the wait returns immediately.
//!
//! Run with: cargo test --offline --test real_demo -- --test-threads=1

#![cfg(unix)]

use std::fs;
use std::io::Read;
use std::sync::mpsc;
use std::thread;
use std::time::{Duration, Instant};

use subprocess::{Exec, Redirection};

const WATCHDOG: Duration = Duration::from_secs(10);

/// (pid, ppid) of every process visible in /proc.
fn process_table() -> Vec<(i32, i32)> {
    let mut table = vec![];
    for entry in fs::read_dir("/proc").unwrap().flatten() {
        let pid: i32 = match entry.file_name().to_string_lossy().parse() {
            Ok(pid) => pid,
            Err(_) => continue,
        };
        let stat = match fs::read_to_string(format!("/proc/{}/stat", pid)) {
            Ok(s) => s,
            Err(_) => continue,
        };
        // pid (comm) state ppid ...; comm may contain spaces and parens
        let after = match stat.rfind(')') {
            Some(pos) => &stat[pos + 1..],
            None => continue,
        };
        let mut fields = after.split_whitespace();
        let _state = fields.next();
        if let Some(ppid) = fields.next().and_then(|s| s.parse().ok()) {
            table.push((pid, ppid));
        }
    }
    table
}

/// All live descendants of this test process.
fn descendants() -> Vec<i32> {
    let table = process_table();
    let me = unsafe { libc::getpid() };
    let mut found = vec![];
    let mut frontier = vec![me];
    while let Some(parent) = frontier.pop() {
        for &(pid, ppid) in &table {
            if ppid == parent && !found.contains(&pid) {
                found.push(pid);
                frontier.push(pid);
            }
        }
    }
    found
}

fn kill_descendants() -> Vec<i32> {
    let pids = descendants();
    for &pid in &pids {
        unsafe {
            libc::kill(pid, libc::SIGKILL);
        }
    }
    pids
}

/// Runs `body` in a thread.  `body` obtains a streaming reader, reads some
/// data from it and drops it.  Fails if that does not complete within
/// WATCHDOG, after killing the stray children so that the stuck drop
/// (a blocking waitpid) is released and the thread can be joined.
fn run_guarded<F>(what: &str, body: F)
where
    F: FnOnce() -> usize + Send + 'static,
{
    let leftovers = descendants();
    assert!(
        leftovers.is_empty(),
        "unexpected children before the test: {:?}",
        leftovers
    );

    let (tx, rx) = mpsc::channel();
    let start = Instant::now();
    let worker = thread::spawn(move || {
        let nread = body();
        tx.send(nread).ok();
    });
    match rx.recv_timeout(WATCHDOG) {
        Ok(nread) => {
            worker.join().unwrap();
            assert!(nread > 0, "{}: expected to read some output", what);
            // the child must really be gone: drop() waited for it
            let left = descendants();
            assert!(
                left.is_empty(),
                "{}: children left behind after drop: {:?}",
                what,
                left
            );
            eprintln!(
                "{}: read {} bytes, drop returned after {:?}",
                what,
                nread,
                start.elapsed()
            );
        }
        Err(_) => {
            let killed = kill_descendants();
            // with the children dead the wait in drop() returns
            worker.join().ok();
            // grandchildren that were reparented meanwhile
            kill_descendants();
            panic!(
                "{}: dropping the stream did not return within {:?}; \
                 the child was still blocked writing to the pipe we hold \
                 (killed stray pids {:?})",
                what, WATCHDOG, killed
            );
        }
    }
}

fn read_some(mut stream: impl Read) -> usize {
    let mut buf = [0u8; 4096];
    let mut total = 0;
    while total < 16384 {
        let n = stream.read(&mut buf).unwrap();
        assert!(n > 0, "unexpected EOF from a child that writes forever");
        total += n;
    }
    total
    // `stream` is dropped here, with the child still producing output
}

#[test]
fn drop_exec_stream_stdout_of_endless_writer() {
    run_guarded("Exec::stream_stdout", || {
        let stream = Exec::cmd("yes").stream_stdout().unwrap();
        read_some(stream)
    });
}

#[test]
fn drop_exec_stream_stderr_of_endless_writer() {
    run_guarded("Exec::stream_stderr", || {
        let stream = Exec::cmd("sh")
            .arg("-c")
            .arg("exec yes >&2")
            .stdout(Redirection::None)
            .stream_stderr()
            .unwrap();
        read_some(stream)
    });
}

#[test]
fn drop_pipeline_stream_stdout_of_endless_writer() {
    run_guarded("Pipeline::stream_stdout", || {
        let stream = (Exec::cmd("yes") | Exec::cmd("cat"))
            .stream_stdout()
            .unwrap();
        read_some(stream)
    });
}

/// Finite, but larger than the pipe buffer: the child would finish on its own
/// if only somebody kept reading.  Nobody does after the drop, so with the
/// defect this hangs just like the endless writer.
#[test]
fn drop_exec_stream_stdout_of_large_finite_output() {
    run_guarded("Exec::stream_stdout (1 MiB of output)", || {
        let stream = Exec::cmd("dd")
            .args(&["if=/dev/zero", "bs=65536", "count=16", "status=none"])
            .stream_stdout()
            .unwrap();
        read_some(stream)
    });
}

#!/usr/bin/env python3
"""Regenerates MANIFEST.json from checks_table.py (single source of truth)."""
import json
from checks_table import PROPS, MANIFEST_TEXT, NOT_APPLICABLE

checks = []
for pid in sorted(PROPS):
    t = MANIFEST_TEXT[pid]
    checks.append({
        "property_id": pid,
        "quick_cmd": "./check %s" % pid,
        "thorough_cmd": "./check %s --tier thorough" % pid,
        "evidence_file": "evidence/%s.json" % pid,
        "replay_cmd_template": "./check --replay {path}",
        "engine": "subsim",
        "level_claimed": {"category": PROPS[pid]["level"], "text": t["text"], "design_ref": t["design_ref"]},
        "level_note": t["note"],
        "technique": t["technique"],
    })

manifest = {
    "version": 1,
    "setup_cmd": "cd /verif && ./check --build && ./check --selftest conformance",
    "hooks": {
        "guard": "none",
        "enable": "no source hooks: the seam is the libc symbol boundary (link-time interposition in the harness binary); /repo is compiled unmodified as a path dependency",
        "baseline_off_cmd": "cd /repo && cargo test --workspace --no-fail-fast --offline -- --test-threads=1",
        "source_commits": [],
        "add_only": True,
    },
    "engines": [{
        "name": "subsim",
        "path": "sim",
        "serves_properties": sorted(PROPS),
        "kind_free_text": "deterministic simulation with fault injection: real library code over a simulated kernel (libc interposition), scripted children, real-fork bridge for the child side, seeded scheduler, virtual clock",
    }],
    "checks": checks,
    "not_applicable": NOT_APPLICABLE,
    "notes": "See DESIGN.md. There are no hooks, so the guard is always off; baseline_off_cmd runs the suite single-threaded because three of its own tests (exec_to_string, env_inherit, env_inherit_set) race on the process environment when libtest runs them in parallel in one process (nextest, which runs one process per test, is unaffected). Exit 0 = held on everything explored (KNOWN-FINDING lines are informational), 1 = VIOLATION with replay file, 2 = harness/build error.",
}
json.dump(manifest, open("MANIFEST.json", "w"), indent=1)
print("MANIFEST.json written with %d checks" % len(checks))

#!/bin/bash
# runs every registered check (quick tier unless VERIF_TIER is set) and prints a summary line per property
cd "$(dirname "$0")"
rc_all=0
for p in $(python3 -c "import json;print(' '.join(c['property_id'] for c in json.load(open('MANIFEST.json'))['checks']))"); do
  out=$(./check $p "$@" 2>&1); rc=$?
  echo "== $p rc=$rc"
  echo "$out" | grep -E "VIOLATION|KNOWN-FINDING|HARNESS-ERROR|WARNING|signature:|runs \(" | cut -c1-400
  [ $rc -ne 0 ] && rc_all=1
done
exit $rc_all

//! Family `spawn`: what a started child looks like at the exec boundary and
//! what a failed launch leaves behind (C05, C06, C07, C08, C15, C17, C18).

use crate::api::*;
use crate::kernel::*;
use crate::plan::*;
use crate::prog::Op;
use crate::rng::Rng;
use crate::runner::FamOut;
use crate::sim::sim;
use serde::{Deserialize, Serialize};
use std::collections::BTreeMap;
use std::ffi::OsString;
use std::os::unix::ffi::{OsStrExt, OsStringExt};
use std::os::unix::io::AsRawFd;
use std::rc::Rc;
use subprocess::{Exec, Popen, PopenConfig, PopenError, Redirection};

#[derive(Serialize, Deserialize, Clone, Copy, Debug, PartialEq, Eq)]
pub enum RedirSpec {
    None,
    Pipe,
    /// a file opened for this stream alone
    File,
    /// Rc<File> number k of the run's pool (the same Rc for equal k)
    RcFile(usize),
    /// File obtained by try_clone() of pool file k (same open file description)
    FileDup(usize),
    Merge,
}

#[derive(Serialize, Deserialize, Clone, Debug)]
pub struct SpawnSpec {
    pub argv: Vec<Vec<u8>>,
    pub executable: Option<Vec<u8>>,
    pub env: Option<Vec<(Vec<u8>, Vec<u8>)>>,
    pub cwd: Option<Vec<u8>>,
    pub setuid: Option<u32>,
    pub setgid: Option<u32>,
    pub setpgid: bool,
    pub stdin: RedirSpec,
    pub stdout: RedirSpec,
    pub stderr: RedirSpec,
    pub detached: bool,
    /// keep the Popen (and its pipe ends) alive until the end of the run
    pub keep: bool,
    /// go through the Exec builder instead of Popen::create
    pub via_exec: bool,
    /// after a successful start: close the parent's read end of stdout and expect the child to die of SIGPIPE
    pub sigpipe_probe: bool,
    /// before this spawn the caller re-points its own descriptor 1 or 2 to another file
    /// (dup2 of a log file onto stdout, say): "inherited" and "merged onto an inherited
    /// stream" mean the parent's stream as it is at the time of the spawn
    #[serde(default)]
    pub repoint_before: Option<u8>,
    /// what is started is a clone() / try_clone() of the configured command (the original is
    /// dropped unused): a clone is an equivalent command, identity and process group included
    #[serde(default)]
    pub via_clone: bool,
}

impl Default for SpawnSpec {
    fn default() -> Self {
        SpawnSpec {
            argv: vec![b"/bin/prog".to_vec()],
            executable: None,
            env: None,
            cwd: None,
            setuid: None,
            setgid: None,
            setpgid: false,
            stdin: RedirSpec::None,
            stdout: RedirSpec::None,
            stderr: RedirSpec::None,
            detached: false,
            keep: false,
            via_exec: false,
            sigpipe_probe: false,
            repoint_before: None,
            via_clone: false,
        }
    }
}

#[derive(Serialize, Deserialize, Clone, Debug, Default)]
pub struct SpawnPlan {
    pub spawns: Vec<SpawnSpec>,
    /// spawns are issued from this many extra parent threads (0 = main thread only)
    pub threads: usize,
}

// ---------------------------------------------------------------------------
// model
// ---------------------------------------------------------------------------

fn os(b: &[u8]) -> OsString {
    OsString::from_vec(b.to_vec())
}

#[derive(Debug, Clone, PartialEq)]
enum Expect {
    /// starts; the image that must run (resolved path)
    Start(Vec<u8>),
    /// fails before anything is started, with a logic error
    Logic,
    /// fails with one of these OS errors
    Os(Vec<i32>),
    /// input contains NUL: must be rejected, nothing started
    Nul,
}

struct ModelOut {
    expect: Expect,
    /// candidate paths in the order they must be tried
    cands: Vec<Vec<u8>>,
}

fn has_nul(spec: &SpawnSpec) -> bool {
    spec.argv.iter().any(|a| a.contains(&0))
        || spec.executable.as_ref().map(|e| e.contains(&0)).unwrap_or(false)
        || spec.env.as_ref().map(|e| e.iter().any(|(k, v)| k.contains(&0) || v.contains(&0))).unwrap_or(false)
}

/// What should happen, given the simulated file system, the parent's PATH and the plan's faults.
fn model(plan: &Plan, spec: &SpawnSpec, spawn_idx: usize) -> ModelOut {
    let k = &sim().k;
    if spec.stdin == RedirSpec::Merge || (spec.stdout == RedirSpec::Merge && spec.stderr == RedirSpec::Merge) {
        return ModelOut { expect: Expect::Logic, cands: vec![] };
    }
    if has_nul(spec) {
        return ModelOut { expect: Expect::Nul, cands: vec![] };
    }
    let f = &plan.knobs.faults;
    // parent-side injected failures
    // (fd allocation / fcntl / fork are addressed by ordinal; whether they fall into
    // this spawn is decided after the fact from the fault counters)
    // child-side: credentials and cwd
    let parent = k.proc(PARENT_PID);
    let mut cred = parent.cred;
    let mut cwd = parent.cwd.clone();
    let mut errs: Vec<i32> = vec![];
    if let Some(c) = &spec.cwd {
        if c.contains(&0) {
            return ModelOut { expect: Expect::Nul, cands: vec![] };
        }
        // resolve as the child would
        let mut tmp = Proc::blank(-1, 0, PKind::Bystander);
        tmp.cwd = cwd.clone();
        tmp.cred = cred;
        match chdir_model(k, &tmp, c) {
            Ok(nc) => cwd = nc,
            Err(e) => errs.push(e),
        }
    }
    // identity: feasible in some order?
    if errs.is_empty() {
        let is_root = cred.euid == 0;
        if let Some(g) = spec.setgid {
            if is_root || g == cred.rgid || g == cred.sgid {
                cred.rgid = if is_root { g } else { cred.rgid };
                cred.egid = g;
                cred.sgid = if is_root { g } else { cred.sgid };
            } else {
                errs.push(libc::EPERM);
            }
        }
        if let Some(u) = spec.setuid {
            if is_root || u == cred.ruid || u == cred.suid {
                if is_root {
                    cred.ruid = u;
                    cred.suid = u;
                }
                cred.euid = u;
            } else {
                errs.push(libc::EPERM);
            }
        }
    }
    if !errs.is_empty() {
        return ModelOut { expect: Expect::Os(errs), cands: vec![] };
    }
    // program lookup
    let cmd: Vec<u8> = spec.executable.clone().unwrap_or_else(|| spec.argv[0].clone());
    let path_var = plan.parent.path_bytes();
    let mut cands: Vec<Vec<u8>> = vec![];
    let search = !cmd.contains(&b'/') && path_var.as_ref().map(|p| !p.is_empty()).unwrap_or(false);
    if search {
        for dir in path_var.unwrap().split(|&b| b == b':') {
            if dir.is_empty() {
                continue;
            }
            let mut c = dir.to_vec();
            c.push(b'/');
            c.extend_from_slice(&cmd);
            cands.push(c);
        }
    } else {
        cands.push(cmd.clone());
    }
    let mut tmp = Proc::blank(-1, 0, PKind::Bystander);
    tmp.cwd = cwd;
    tmp.cred = cred;
    let mut cand_errs = vec![];
    for (ci, c) in cands.iter().enumerate() {
        if let Some((_, _, e)) = f.exec_errno.iter().find(|(si, cj, _)| *si as usize == spawn_idx && *cj as usize == ci) {
            cand_errs.push(*e);
            continue;
        }
        match exec_model(k, &tmp, c) {
            Ok(full) => return ModelOut { expect: Expect::Start(full), cands },
            Err(e) => cand_errs.push(e),
        }
    }
    if cand_errs.is_empty() {
        // PATH consisting only of empty entries: nothing can be started
        cand_errs.push(libc::ENOENT);
    }
    ModelOut { expect: Expect::Os(cand_errs), cands }
}

fn chdir_model(k: &Kernel, p: &Proc, path: &[u8]) -> Result<Vec<u8>, i32> {
    let full = k.normalize(&p.cwd, path)?;
    match k.fs.get(&full) {
        None => Err(libc::ENOENT),
        Some(Node::Dir { searchable }) => {
            if !*searchable && p.cred.euid != 0 {
                Err(libc::EACCES)
            } else {
                Ok(full)
            }
        }
        Some(Node::Loop) => Err(libc::ELOOP),
        Some(_) => Err(libc::ENOTDIR),
    }
}

fn exec_model(k: &Kernel, p: &Proc, path: &[u8]) -> Result<Vec<u8>, i32> {
    // same rules as Kernel::resolve_exec, for a hypothetical process
    let trailing = path.last() == Some(&b'/');
    let full = k.normalize(&p.cwd, path)?;
    if p.cred.euid != 0 {
        let mut i = 1;
        while i < full.len() {
            if full[i] == b'/' {
                if let Some(Node::Dir { searchable: false }) = k.fs.get(&full[..i]) {
                    return Err(libc::EACCES);
                }
            }
            i += 1;
        }
    }
    match k.fs.get(&full) {
        None => Err(libc::ENOENT),
        Some(Node::Dir { .. }) => Err(libc::EACCES),
        Some(_) if trailing => Err(libc::ENOTDIR),
        Some(Node::Exe { .. }) => Ok(full),
        Some(Node::NoExec) => Err(libc::EACCES),
        Some(Node::NotBinary) => Err(libc::ENOEXEC),
        Some(Node::Loop) => Err(libc::ELOOP),
    }
}

fn env_map(list: &[Vec<u8>]) -> BTreeMap<Vec<u8>, Vec<u8>> {
    let mut m = BTreeMap::new();
    for e in list {
        let pos = e.iter().position(|&b| b == b'=').unwrap_or(e.len());
        m.insert(e[..pos].to_vec(), e.get(pos + 1..).unwrap_or(&[]).to_vec());
    }
    m
}

// ---------------------------------------------------------------------------
// workload
// ---------------------------------------------------------------------------

struct Pool {
    rcs: Vec<Rc<std::fs::File>>,
    descs: Vec<usize>,
}

struct StreamWant {
    /// description the child must have at this fd (None = decided by the peer rule)
    desc: Option<usize>,
    piped: bool,
}

fn parent_table() -> BTreeMap<i32, usize> {
    sim().k.proc(PARENT_PID).fds.iter().map(|(fd, e)| (*fd, e.desc)).collect()
}

fn mk_redir(spec: RedirSpec, pool: &Pool, label: &str) -> (Redirection, Option<usize>) {
    match spec {
        RedirSpec::None => (Redirection::None, None),
        RedirSpec::Pipe => (Redirection::Pipe, None),
        RedirSpec::Merge => (Redirection::Merge, None),
        RedirSpec::File => {
            let f = mk_file(label, vec![]);
            let d = desc_of_parent_fd(f.as_raw_fd());
            (Redirection::File(f), d)
        }
        RedirSpec::RcFile(k) => {
            let k = k % pool.rcs.len();
            (Redirection::RcFile(pool.rcs[k].clone()), Some(pool.descs[k]))
        }
        RedirSpec::FileDup(k) => {
            let k = k % pool.rcs.len();
            let f = pool.rcs[k].try_clone().expect("try_clone of a pool file");
            (Redirection::File(f), Some(pool.descs[k]))
        }
    }
}

fn errno_of(e: &PopenError) -> Option<i32> {
    match e {
        PopenError::IoError(io) => io.raw_os_error(),
        _ => None,
    }
}

/// One spawn: call the library, judge the outcome. Returns the Popen when it is to be kept alive.
fn do_spawn(plan: &Plan, spec: &SpawnSpec, si: usize, pool: &Pool, boot: &[Option<usize>], mt: bool, nontrivial: &mut bool) -> Option<Popen> {
    let t = me();
    if sim().poisoned.is_some() {
        return None;
    }
    sim().k.last_fork_of_thread[t as usize] = None;
    let spawn_idx_guess = sim().k.n_spawned;
    let mo = model(plan, spec, spawn_idx_guess);
    let table_before = parent_table();
    let forks_before = sim().k.n_fork;
    let fired_before: u64 = sim().k.fcount.fired.values().sum();
    let (r_in, d_in) = mk_redir(spec.stdin, &pool, "f_in");
    let (r_out, d_out) = mk_redir(spec.stdout, &pool, "f_out");
    let (r_err, d_err) = mk_redir(spec.stderr, &pool, "f_err");
    // descriptors handed over (File variants) are consumed by the call
    let mut table_expected_after = table_before.clone();
    let _ = &mut table_expected_after;
    let argv: Vec<OsString> = spec.argv.iter().map(|a| os(a)).collect();
    let res: Result<subprocess::Result<Popen>, String> = if spec.via_exec {
        let mut ex = Exec::cmd(&argv[0]);
        for a in &argv[1..] {
            ex = ex.arg(a);
        }
        if let Some(env) = &spec.env {
            ex = ex.env_clear();
            for (k, v) in env {
                ex = ex.env(os(k), os(v));
            }
        }
        if let Some(c) = &spec.cwd {
            ex = ex.cwd(os(c));
        }
        if spec.detached {
            ex = ex.detached();
        }
        use subprocess::ExecExt;
        if let Some(u) = spec.setuid {
            ex = ex.setuid(u);
        }
        if let Some(g) = spec.setgid {
            ex = ex.setgid(g);
        }
        let ex = match r_in {
            Redirection::None => ex,
            r => ex.stdin(r),
        };
        let ex = match r_out {
            Redirection::None => ex,
            r => ex.stdout(r),
        };
        let ex = match r_err {
            Redirection::None => ex,
            r => ex.stderr(r),
        };
        let ex = if spec.via_clone { ex.clone() } else { ex };
        lib("Exec::popen", move || ex.popen())
    } else {
        let cfg = PopenConfig {
            stdin: r_in,
            stdout: r_out,
            stderr: r_err,
            detached: spec.detached,
            executable: spec.executable.as_ref().map(|e| os(e)),
            env: spec.env.as_ref().map(|e| e.iter().map(|(k, v)| (os(k), os(v))).collect()),
            cwd: spec.cwd.as_ref().map(|c| os(c)),
            setuid: spec.setuid,
            setgid: spec.setgid,
            setpgid: spec.setpgid,
            ..Default::default()
        };
        let cfg = if spec.via_clone { cfg.try_clone().expect("PopenConfig::try_clone") } else { cfg };
        lib("Popen::create", move || Popen::create(&argv, cfg))
    };
    let forked = sim().k.last_fork_of_thread[t as usize].is_some();
    let spawn_idx = sim().k.last_fork_of_thread[t as usize].unwrap_or(spawn_idx_guess);
    let _ = forks_before;
    let fault_fired = sim().k.fcount.fired.values().sum::<u64>() > fired_before;
    let fired_names: Vec<String> = sim().k.fcount.fired.keys().map(|s| s.to_string()).collect();
    let child_pid = if forked { sim().k.all_procs().filter(|p| p.kind == PKind::Child(spawn_idx)).map(|p| p.pid).next() } else { None };
    let ctx = format!("spawn#{} ({})", si, if spec.via_exec { "Exec::popen" } else { "Popen::create" });
    let res = match res {
        Err(pm) => {
            violate("panic", format!("panic/in={}", if spec.via_exec { "Exec::popen" } else { "Popen::create" }), format!("{} panicked: {}", ctx, pm));
            return None;
        }
        Ok(r) => r,
    };
    match res {
        Ok(p) => {
            // ---- C05: a standard descriptor the parent runs without stays closed (the library's own
            // pipes and handles live above 2)
            if !mt {
                let after = parent_table();
                for fd in 0..3 {
                    if !table_before.contains_key(&fd) {
                        if let Some(d) = after.get(&fd) {
                            violate("parent_std_touched", "parent_std_touched/closed_descriptor_open_after_spawn".into(), format!("{}: descriptor {} was closed in the parent before the spawn and is open after it ({})", ctx, fd, desc_kind_name(*d)));
                        }
                    }
                }
            }
            // ---- C07: a handle only if the program image was started, known at return
            let started = child_pid.and_then(|pid| sim().k.all_procs().find(|c| c.pid == pid && c.kind == PKind::Child(spawn_idx))).map(|c| c.exec.is_some()).unwrap_or(false);
            if !started {
                let state = child_pid.and_then(|pid| sim().k.procs.get(&pid)).map(|c| format!("{:?}", c.state)).unwrap_or_else(|| "none".into());
                violate("ok_without_exec", format!("ok_without_exec/child_state={}", state.split([' ', '{', '(']).next().unwrap_or("")), format!("{} returned a handle but no program image was started (child state {}, expected {:?})", ctx, state, mo.expect));
            }
            match &mo.expect {
                Expect::Logic => violate("not_refused", if spec.stdin == RedirSpec::Merge { "not_refused/stdin=Merge".to_string() } else { "not_refused/stdout=Merge/stderr=Merge".to_string() }, format!("{}: invalid redirection combination (stdin={:?} stdout={:?} stderr={:?}) was not refused", ctx, spec.stdin, spec.stdout, spec.stderr)),
                Expect::Nul => violate("nul_accepted", "nul_accepted/ok".into(), format!("{}: input containing NUL started a process", ctx)),
                Expect::Os(errs) if started => {
                    if errs == &vec![libc::EPERM] && (spec.setuid.is_some() || spec.setgid.is_some()) {
                        violate("ids", "ids/started_although_refused".into(), format!("{}: identity change must be refused, yet the program started", ctx));
                    } else {
                        violate("ok_without_exec", "ok_without_exec/model_says_fail".into(), format!("{}: started although the model predicts failure {:?}", ctx, errs));
                    }
                }
                _ => {}
            }
            if started {
                let pid = child_pid.unwrap();
                judge_child(plan, spec, si, pid, &mo, &p, [d_in, d_out, d_err], &boot, &ctx);
                *nontrivial = true;
            }
            // any silently failed pre-exec step?
            if let Some(c) = sim().k.child_by_spawn(spawn_idx) {
                if let Some(rep) = &c.report {
                    for call in &rep.calls {
                        if call.ret < 0 && !matches!(call.op, ChildOp::Exec { .. }) && started {
                            violate("ok_without_exec", format!("ok_without_exec/step_failed={}", op_name(&call.op)), format!("{}: child-side step {:?} failed with errno {} but the launch went on", ctx, op_name(&call.op), call.errno));
                        }
                    }
                }
            }
            let mut p = p;
            if spec.sigpipe_probe && started && p.stdout.is_some() && child_pid.map(|pid| sim().k.is_alive(pid)).unwrap_or(false) {
                // the consumer goes away: the producer must die of SIGPIPE
                drop(p.stdout.take());
                let pid = child_pid.unwrap();
                until_gone(pid, 3_600_000_000_000);
                if let Some(c) = sim().k.all_procs().find(|c| c.pid == pid && c.kind == PKind::Child(spawn_idx)) {
                    if c.epipes > 0 || c.exit_cause != Some(ExitCause::Signal(SIGPIPE)) {
                        violate("sigpipe_not_fatal", format!("sigpipe_not_fatal/epipes={}", c.epipes.min(3)), format!("{}: the producer survived {} write(s) to a pipe without reader and ended with {:?}", ctx, c.epipes, c.exit_cause));
                    }
                    sim().k.probe("sigpipe_consequence_checked");
                }
            }
            if spec.keep {
                judge_lookup(spec, spawn_idx, &mo, &ctx);
                return Some(p);
            } else {
                kill_all_children_of(spawn_idx);
                let _ = lib_drop("drop(Popen)", p);
                judge_after_drop(spec, spawn_idx, &ctx, false);
            }
        }
        Err(e) => {
            let code = errno_of(&e);
            match &mo.expect {
                Expect::Logic => {
                    if !matches!(e, PopenError::LogicError(_)) || forked {
                        violate("not_refused", format!("not_refused/err={}", if forked { "forked" } else { "not_logic" }), format!("{}: expected LogicError without starting a process, got {:?} (forked: {})", ctx, e, forked));
                    }
                }
                Expect::Nul => {
                    sim().k.probe("nul_rejected");
                }
                Expect::Start(img) => {
                    if !fault_fired {
                        violate("spawn_failed", format!("spawn_failed/errno={:?}", code), format!("{}: failed with {:?} although {:?} can be started", ctx, e, String::from_utf8_lossy(img)));
                        if mo.cands.len() > 1 {
                            // the search gave up although a later PATH entry holds a startable candidate
                            violate("wrong_candidate", format!("wrong_candidate/gave_up/errno={:?}", code), format!("{}: PATH search failed with {:?} although candidate {:?} can be started (candidates in order: {:?})", ctx, e, String::from_utf8_lossy(img), mo.cands.iter().map(|c| String::from_utf8_lossy(c).into_owned()).collect::<Vec<_>>()));
                        }
                        if spec.executable.is_some() {
                            // "the first argument as its program name even when a different executable is
                            // named": the named executable can be started, whatever argv[0] looks like
                            violate("image", format!("image/executable_override_not_started/errno={:?}", code), format!("{}: executable {:?} with argv[0] {:?} can be started, the launch failed with {:?}", ctx, spec.executable.as_ref().map(|e| String::from_utf8_lossy(e).into_owned()), String::from_utf8_lossy(&spec.argv[0]), e));
                        }
                        if spec.cwd.is_some() && (spec.setuid.is_some() || spec.setgid.is_some()) && matches!(code, Some(libc::EACCES) | Some(libc::ENOENT) | Some(libc::EPERM)) {
                            // both a working directory and an identity were requested and the combination is
                            // feasible (the model starts it): the requested settings must all take effect
                            violate("cwd", format!("cwd/with_identity_change/errno={:?}", code), format!("{}: cwd {:?} and setuid({:?})/setgid({:?}) were requested, each feasible for the caller; the launch failed with {:?}", ctx, spec.cwd.as_ref().map(|c| String::from_utf8_lossy(c).into_owned()), spec.setuid, spec.setgid, e));
                        }
                        if code == Some(libc::EPERM) && spec.setuid.is_some() && spec.setgid.is_some() {
                            violate("ids", "ids/requested=uid+gid/errno=EPERM".into(), format!("{}: both setuid({:?}) and setgid({:?}) were requested by root; the launch failed with EPERM", ctx, spec.setuid, spec.setgid));
                        }
                    } else {
                        // the error must be the one of the injected step
                        check_injected_errno(plan, spawn_idx, code, &ctx, &fired_names);
                    }
                }
                Expect::Os(errs) => {
                    if !fault_fired || errs.iter().any(|_| true) {
                        let ok = code.map(|c| errs.contains(&c)).unwrap_or(false) || (fault_fired && injected_errnos(plan).contains(&code.unwrap_or(-1)));
                        if !ok {
                            violate("wrong_errno", format!("wrong_errno/got={:?}/want={:?}", code, errs), format!("{}: failed with {:?}; the failing step(s) produced {:?}", ctx, e, errs));
                        }
                    }
                }
            }
            if fault_fired || matches!(mo.expect, Expect::Os(_)) {
                *nontrivial = true;
            }
            drop(e);
            if forked {
                judge_after_drop(spec, spawn_idx, &ctx, true);
            }
            // C07: nothing left open in the parent
            let after = parent_table();
            let handed: Vec<usize> = [d_in, d_out, d_err].iter().flatten().cloned().collect();
            for (fd, d) in after.iter() {
                if !mt && table_before.get(fd) != Some(d) && !pool.descs.contains(d) {
                    violate("fd_leak_parent", format!("fd_leak_parent/kind={}", desc_kind_name(*d)), format!("{}: after the failed launch descriptor {} ({}) is still open in the parent", ctx, fd, desc_kind_name(*d)));
                }
            }
            let _ = handed;
        }
    }
    // C15: with a slash no search; candidates in order
    judge_lookup(spec, spawn_idx, &mo, &ctx);
    None
}

pub fn run(plan: &Plan, sp: &SpawnPlan) -> FamOut {
    let mut nontrivial = false;
    let boot: Vec<Option<usize>> = (0..3).map(|i| desc_of_parent_fd(i)).collect();
    if sp.threads == 0 {
        // with `files_low`, the low numbers go to the shared pool files in half of the runs and
        // are left for the files opened per spawn (each with a single owner) in the other half
        let pool_high = plan.parent.files_low && (plan.seed >> 9) & 1 == 1;
        let min0 = sim().k.harness_fd_min;
        if pool_high {
            sim().k.harness_fd_min = 3;
        }
        let pool = Pool::new("m");
        sim().k.harness_fd_min = min0;
        let mut kept: Vec<Popen> = vec![];
        let mut boot = boot;
        for (si, spec) in sp.spawns.iter().enumerate() {
            if let Some(fd) = spec.repoint_before {
                // the caller's own doing, not a library call: straight on the kernel
                let s = sim();
                let nf = s.k.mk_file(PARENT_PID, &format!("repointed{}", si), vec![], false);
                let _ = s.k.k_dup2(PARENT_PID, nf, fd as i32);
                let _ = s.k.k_close(PARENT_PID, nf);
                boot[fd as usize] = desc_of_parent_fd(fd as i32);
                s.k.probe("parent_std_repointed");
            }
            if let Some(p) = do_spawn(plan, spec, si, &pool, &boot, false, &mut nontrivial) {
                kept.push(p);
            }
        }
        // C08 over the whole history
        judge_leaks();
        judge_release_on_std_close();
        judge_eof_propagation(&mut kept);
        // release
        kill_all_children();
        for p in kept {
            let _ = lib_drop("drop(Popen)", p);
        }
        drop(pool);
        return FamOut { nontrivial };
    }
    // several parent threads spawn concurrently (every interposed call is a switch point)
    let nt = sp.threads.min(3);
    let mut handles = vec![];
    for ti in 0..nt {
        let specs: Vec<(usize, SpawnSpec)> = sp.spawns.iter().cloned().enumerate().filter(|(i, _)| i % nt == ti).collect();
        let plan2 = plan.clone();
        let boot2 = boot.clone();
        let (u, h) = crate::simrt::spawn(move || {
            let pool = Pool::new(&format!("t{}", ti));
            let mut nt_flag = false;
            let mut kept: Vec<Popen> = vec![];
            for (si, spec) in specs.iter() {
                if let Some(p) = do_spawn(&plan2, spec, *si, &pool, &boot2, true, &mut nt_flag) {
                    kept.push(p);
                }
            }
            // let the other threads get their spawns in while these handles are alive
            crate::api::yield_threads(8);
            judge_eof_propagation(&mut kept);
            for p in kept {
                let pid = p.pid().map(|x| x as i32);
                if let Some(pid) = pid {
                    kill_pid(pid);
                }
                let _ = lib_drop("drop(Popen)", p);
            }
            drop(pool);
        });
        handles.push((u, h));
    }
    for (u, _) in handles.iter() {
        crate::simrt::join(*u);
    }
    if sim().threads.len() >= 3 {
        sim().k.probe("concurrent_spawn_threads");
    }
    judge_leaks();
    kill_all_children();
    nontrivial = true;
    // the OS threads are reaped by the runner (they have left the simulation)
    crate::runner::stash_handles(handles.into_iter().map(|(_, h)| h).collect());
    FamOut { nontrivial }
}

/// C08, the consequence: closing the parent's end gives the child end-of-file, and the end of a
/// child gives the parent end-of-file, whoever else is still running.
fn judge_eof_propagation(kept: &mut Vec<Popen>) {
    let holders = |desc: usize, except_pid: i32| -> Vec<(i32, PKind, Option<u8>)> {
        sim().k.procs.values().filter(|c| c.pid != PARENT_PID && c.pid != except_pid && c.alive() && c.fds.values().any(|e| e.desc == desc)).map(|c| (c.pid, c.kind, c.forked_by)).collect()
    };
    for p in kept.iter_mut() {
        if sim().poisoned.is_some() {
            return;
        }
        // a child between fork and exec holds a copy of everything for an instant; only what
        // survives exec counts, so every pending child gets to exec before a verdict
        // (one that sleeps there holds it for as long as it pleases: that one is left alone)
        let exec_pending = || {
            let pending: Vec<i32> = sim().k.procs.values().filter(|c| c.state == PState::PreExec && c.preexec_wake.is_none()).map(|c| c.pid).collect();
            for c in pending {
                sim().step_entity(Ent::Proc(c));
            }
        };
        let pid = p.pid().map(|x| x as i32).unwrap_or(-1);
        // the child must have applied its pre-exec calls
        if sim().k.procs.get(&pid).map(|c| c.state == PState::PreExec).unwrap_or(false) {
            sim().step_entity(Ent::Proc(pid));
        }
        if let Some(f) = p.stdin.take() {
            let pi = desc_of_parent_fd(f.as_raw_fd()).and_then(pipe_of_desc);
            drop(f);
            exec_pending();
            if let Some(pi) = pi {
                let (w_open, wdesc, creator) = {
                    let pp = &sim().k.pipes[pi];
                    (pp.w_open, pp.wdesc, pp.creator)
                };
                if w_open {
                    let h = holders(wdesc, -1);
                    let cross = h.iter().any(|(_, _, fb)| fb.is_some() && creator.is_some() && *fb != creator);
                    let napping = h.iter().any(|(hp, _, _)| sim().k.procs.get(hp).map(|c| c.state == PState::PreExec && c.preexec_wake.is_some()).unwrap_or(false));
                    violate(
                        "eof_blocked_by_stranger",
                        if napping { "eof_blocked_by_stranger/cause=forked_copy_sleeps_before_exec".to_string() } else if cross { "eof_blocked_by_stranger/cause=concurrent_spawn_on_other_thread".to_string() } else { "eof_blocked_by_stranger/stream=stdin".to_string() },
                        format!("the parent closed its end of child {}'s stdin, but the write end is still open in {:?}: the child cannot see end-of-file", pid, h),
                    );
                }
                sim().k.probe("eof_propagation_checked");
            }
        }
        // the child goes away: its output pipes must reach end-of-file
        let outs: Vec<(usize, &'static str)> = [(p.stdout.as_ref(), "stdout"), (p.stderr.as_ref(), "stderr")].iter().filter_map(|(f, n)| f.and_then(|f| desc_of_parent_fd(f.as_raw_fd())).and_then(pipe_of_desc).map(|pi| (pi, *n))).collect();
        if !outs.is_empty() && pid > 0 {
            kill_pid(pid);
            exec_pending();
            for (pi, name) in outs {
                let (w_open, wdesc, creator) = {
                    let pp = &sim().k.pipes[pi];
                    (pp.w_open, pp.wdesc, pp.creator)
                };
                if w_open {
                    let h = holders(wdesc, pid);
                    let cross = h.iter().any(|(_, _, fb)| fb.is_some() && creator.is_some() && *fb != creator);
                    let napping = h.iter().any(|(hp, _, _)| sim().k.procs.get(hp).map(|c| c.state == PState::PreExec && c.preexec_wake.is_some()).unwrap_or(false));
                    violate(
                        "eof_blocked_by_stranger",
                        if napping {
                            "eof_blocked_by_stranger/cause=forked_copy_sleeps_before_exec".to_string()
                        } else if cross { "eof_blocked_by_stranger/cause=concurrent_spawn_on_other_thread".to_string() } else { format!("eof_blocked_by_stranger/stream={}", name) },
                        format!("child {} is gone but the write end of its {} pipe is still open in {:?}: the parent cannot see end-of-file", pid, name, h),
                    );
                }
                sim().k.probe("eof_propagation_checked");
            }
        }
    }
}

fn kill_pid(pid: i32) {
    let s = sim();
    if s.k.procs.get(&pid).map(|p| p.state == PState::PreExec).unwrap_or(false) {
        s.step_entity(Ent::Proc(pid));
    }
    if s.k.is_alive(pid) {
        s.k.proc_mut(pid).stopped = false;
        s.k.exit_proc(pid, ExitCause::Signal(SIGKILL));
    }
}

impl Pool {
    fn new(tag: &str) -> Pool {
        let mut pool = Pool { rcs: vec![], descs: vec![] };
        for i in 0..3 {
            let f = mk_file(&format!("pool{}{}", tag, i), vec![]);
            pool.descs.push(desc_of_parent_fd(f.as_raw_fd()).unwrap());
            pool.rcs.push(Rc::new(f));
        }
        pool
    }
}

fn kill_all_children_of(spawn_idx: usize) {
    let s = sim();
    let pids: Vec<i32> = s.k.procs.values().filter(|p| p.kind == PKind::Child(spawn_idx) && p.alive()).map(|p| p.pid).collect();
    for pid in pids {
        if s.k.proc(pid).state == PState::PreExec {
            s.step_entity(Ent::Proc(pid));
        }
        if s.k.is_alive(pid) {
            s.k.proc_mut(pid).stopped = false;
            s.k.exit_proc(pid, ExitCause::Signal(SIGKILL));
        }
    }
}

fn injected_errnos(plan: &Plan) -> Vec<i32> {
    let f = &plan.knobs.faults;
    let mut v = vec![];
    if let Some((_, e)) = f.fdalloc {
        v.push(e);
    }
    if let Some((_, e)) = f.fcntl_setfd {
        v.push(e);
    }
    if let Some((_, e)) = f.fork {
        v.push(e);
    }
    if let Some((_, _, e)) = f.child_step {
        v.push(e);
    }
    for (_, _, e) in &f.exec_errno {
        v.push(*e);
    }
    v
}

fn check_injected_errno(plan: &Plan, _spawn_idx: usize, code: Option<i32>, ctx: &str, fired: &[String]) {
    let want = injected_errnos(plan);
    if !code.map(|c| want.contains(&c)).unwrap_or(false) {
        violate("wrong_errno", format!("wrong_errno/injected/got={:?}", code), format!("{}: an injected failure ({:?}, errno one of {:?}) was reported as {:?}", ctx, fired, want, code));
    }
}

fn op_name(op: &ChildOp) -> &'static str {
    match op {
        ChildOp::Close { .. } => "close",
        ChildOp::Dup2 { .. } => "dup2",
        ChildOp::Dup { .. } => "dup",
        ChildOp::Fcntl { .. } => "fcntl",
        ChildOp::Chdir { .. } => "chdir",
        ChildOp::Setuid { .. } => "setuid",
        ChildOp::Setgid { .. } => "setgid",
        ChildOp::Setpgid { .. } => "setpgid",
        ChildOp::Setsid => "setsid",
        ChildOp::Sigmask { .. } => "sigmask",
        ChildOp::Signal { .. } => "signal",
        ChildOp::Exec { .. } => "exec",
        ChildOp::Write { .. } => "write",
        ChildOp::Read { .. } => "read",
        ChildOp::Exit { .. } => "_exit",
        ChildOp::Escaped { .. } => "escaped",
        ChildOp::Other { .. } => "other",
        ChildOp::Sleep { .. } => "sleep",
    }
}

fn desc_kind_name(d: usize) -> &'static str {
    match sim().k.descs[d].kind {
        DescKind::PipeR(_) => "pipe_read_end",
        DescKind::PipeW(_) => "pipe_write_end",
        DescKind::File(_) => "file",
        DescKind::Null => "null",
        DescKind::Tty(_) => "tty",
    }
}

/// After the result of a launch is gone: no child of the attempt may be left.
fn judge_after_drop(spec: &SpawnSpec, spawn_idx: usize, ctx: &str, failed: bool) {
    let s = sim();
    for c in s.k.procs.values().filter(|c| c.kind == PKind::Child(spawn_idx)) {
        match c.state {
            PState::Zombie { .. } => {
                if failed || !spec.detached {
                    violate(
                        "zombie_left",
                        format!("zombie_left/detached={}/cause={}", spec.detached, if failed { "launch_failed" } else { "dropped" }),
                        format!("{}: child {} is a zombie after the {} (detached={})", ctx, c.pid, if failed { "failed launch" } else { "handle was dropped" }, spec.detached),
                    );
                }
            }
            PState::Reaped => {}
            _ => {
                if failed {
                    violate("err_with_child", format!("err_with_child/state={:?}", c.state).split([' ', '{']).next().unwrap_or("").to_string(), format!("{}: launch failed but child {} is still there ({:?})", ctx, c.pid, c.state));
                }
            }
        }
    }
}

#[allow(clippy::too_many_arguments)]
fn judge_child(plan: &Plan, spec: &SpawnSpec, si: usize, pid: i32, mo: &ModelOut, p: &Popen, given: [Option<usize>; 3], boot: &[Option<usize>], ctx: &str) {
    let s = sim();
    let c = match s.k.all_procs().find(|c| c.pid == pid && matches!(c.kind, PKind::Child(_)) && c.exec.is_some()) {
        Some(c) => c,
        None => return,
    };
    let rec = c.exec.as_ref().unwrap();
    // ---- C05: wiring by identity of open file descriptions
    let at = |fd: i32| c.exec_fds.get(&fd).cloned();
    let popen_fds = [p.stdin.as_ref().map(|f| f.as_raw_fd()), p.stdout.as_ref().map(|f| f.as_raw_fd()), p.stderr.as_ref().map(|f| f.as_raw_fd())];
    let specs = [spec.stdin, spec.stdout, spec.stderr];
    let names = ["stdin", "stdout", "stderr"];
    let mut want: [Option<usize>; 3] = [None, None, None];
    for i in 0..3 {
        let piped = specs[i] == RedirSpec::Pipe;
        if popen_fds[i].is_some() != piped {
            violate("absent_present", format!("absent_present/stream={}/spec={:?}", names[i], specs[i]), format!("{}: Popen.{} is {} but the stream was configured as {:?}", ctx, names[i], if popen_fds[i].is_some() { "Some" } else { "None" }, specs[i]));
        }
        want[i] = match specs[i] {
            RedirSpec::None => boot[i],
            RedirSpec::Pipe => {
                // the peer of the end exposed on the Popen
                popen_fds[i].and_then(desc_of_parent_fd).and_then(|d| match s.k.descs[d].kind {
                    DescKind::PipeW(pi) if i == 0 => Some(s.k.pipes[pi].rdesc),
                    DescKind::PipeR(pi) if i != 0 => Some(s.k.pipes[pi].wdesc),
                    _ => None,
                })
            }
            RedirSpec::File | RedirSpec::RcFile(_) | RedirSpec::FileDup(_) => given[i],
            RedirSpec::Merge => None,
        };
    }
    if specs[1] == RedirSpec::Merge {
        want[1] = want[2];
    }
    if specs[2] == RedirSpec::Merge {
        want[2] = want[1];
    }
    for i in 0..3 {
        let got = at(i as i32);
        if specs[i] == RedirSpec::None && boot[i].is_none() {
            // the parent has this descriptor closed: so has the program
            sim().k.probe("inherit_closed_std_checked");
            if let Some(g) = got {
                violate("wiring", format!("wiring/stream={}/spec=None(closed in the parent)/got={}", names[i], desc_kind_name(g)), format!("{}: the parent runs with descriptor {} closed and the stream is not redirected, yet the program finds {} there", ctx, i, desc_kind_name(g)));
            }
            continue;
        }
        if want[i].is_some() && got != want[i] {
            violate(
                "wiring",
                format!("wiring/stream={}/spec={:?}/got={}", names[i], specs[i], got.map(desc_kind_name).unwrap_or("closed")),
                format!("{}: the child's {} is {} (description {:?}), requested {:?} (description {:?}); config in={:?} out={:?} err={:?}", ctx, names[i], got.map(desc_kind_name).unwrap_or("closed"), got, specs[i], want[i], specs[0], specs[1], specs[2]),
            );
        }
    }
    // ---- C06
    if rec.argv != spec.argv {
        let idx = rec.argv.iter().zip(spec.argv.iter()).position(|(a, b)| a != b).unwrap_or(rec.argv.len().min(spec.argv.len()));
        violate("argv", format!("argv/len_got={}/len_want={}", rec.argv.len().min(5), spec.argv.len().min(5)), format!("{}: argv differs at index {} ({} vs {} entries)", ctx, idx, rec.argv.len(), spec.argv.len()));
    }
    if let Expect::Start(img) = &mo.expect {
        if &rec.resolved != img {
            violate("wrong_candidate", format!("wrong_candidate/search={}", mo.cands.len() > 1), format!("{}: ran {:?}, the first startable candidate is {:?}", ctx, String::from_utf8_lossy(&rec.resolved), String::from_utf8_lossy(img)));
        }
    }
    let got_env = env_map(&rec.env);
    let want_env: BTreeMap<Vec<u8>, Vec<u8>> = match &spec.env {
        Some(list) => {
            let mut m = BTreeMap::new();
            for (k, v) in list {
                m.insert(k.clone(), v.clone());
            }
            m
        }
        None => {
            let mut m: BTreeMap<Vec<u8>, Vec<u8>> = plan.parent.env.iter().map(|(k, v)| (k.as_bytes().to_vec(), v.as_bytes().to_vec())).collect();
            if let Some(raw) = &plan.parent.path_raw {
                m.insert(b"PATH".to_vec(), raw.clone());
            }
            m
        }
    };
    if spec.env.is_none() && plan.parent.env_odd {
        // the block is handed on as it is: same entries, and entries of one name in the same order
        let key = |e: &Vec<u8>| e[..e.iter().position(|&b| b == b'=').unwrap_or(e.len())].to_vec();
        let mut want_raw = crate::runner::raw_environ();
        let mut got_raw = rec.env.clone();
        want_raw.sort_by_key(key);
        got_raw.sort_by_key(key);
        if want_raw != got_raw {
            let lost: Vec<String> = want_raw.iter().filter(|e| !got_raw.contains(e)).map(|e| String::from_utf8_lossy(e).into_owned()).collect();
            let added: Vec<String> = got_raw.iter().filter(|e| !want_raw.contains(e)).map(|e| String::from_utf8_lossy(e).into_owned()).collect();
            violate("env", format!("env/explicit=false/inherited_block_changed/lost={}/added={}", lost.len().min(2), added.len().min(2)), format!("{}: no environment was specified, but the child's environment block is not the parent's: {} entries instead of {}, lost {:?}, added {:?}", ctx, got_raw.len(), want_raw.len(), lost, added));
        }
    } else if got_env != want_env || (spec.env.is_some() && rec.env.len() != want_env.len()) {
        let missing = want_env.keys().filter(|k| !got_env.contains_key(*k)).count();
        let extra = got_env.keys().filter(|k| !want_env.contains_key(*k)).count();
        let differ = want_env.iter().filter(|(k, v)| got_env.get(*k).map(|g| g != *v).unwrap_or(false)).count();
        violate("env", format!("env/explicit={}/missing={}/extra={}/differ={}/dups={}", spec.env.is_some(), missing.min(2), extra.min(2), differ.min(2), rec.env.len() != got_env.len()), format!("{}: environment differs: {} missing, {} extra, {} with another value, {} entries for {} names", ctx, missing, extra, differ, rec.env.len(), got_env.len()));
    }
    let want_cwd = match &spec.cwd {
        Some(cw) => s.k.normalize(&s.k.proc(PARENT_PID).cwd, cw).unwrap_or_default(),
        None => s.k.proc(PARENT_PID).cwd.clone(),
    };
    if c.exec_cwd != want_cwd {
        violate("cwd", "cwd".into(), format!("{}: child cwd {:?}, requested {:?}", ctx, String::from_utf8_lossy(&c.exec_cwd), String::from_utf8_lossy(&want_cwd)));
    }
    let pc = s.k.proc(PARENT_PID).cred;
    let cred = c.exec_cred.unwrap();
    let want_uid = spec.setuid.unwrap_or(pc.euid);
    let want_gid = spec.setgid.unwrap_or(pc.egid);
    if cred.euid != want_uid || cred.egid != want_gid || (spec.setuid.is_some() && pc.euid == 0 && cred.ruid != want_uid) || (spec.setgid.is_some() && pc.euid == 0 && cred.rgid != want_gid) {
        violate("ids", format!("ids/uid_ok={}/gid_ok={}", cred.euid == want_uid, cred.egid == want_gid), format!("{}: child runs as {:?}, requested uid {:?} gid {:?}", ctx, cred, spec.setuid, spec.setgid));
    }
    let want_pgid = if spec.setpgid { pid } else { s.k.proc(PARENT_PID).pgid };
    if c.exec_pgid != want_pgid {
        violate("pgid", format!("pgid/setpgid={}", spec.setpgid), format!("{}: child process group {}, expected {}", ctx, c.exec_pgid, want_pgid));
    }
    // C17 / C18 are judged for every child of every family in runner::post_checks
    let _ = si;
}

pub fn judge_alloc(rep: &ChildReport, ctx: &str, success: bool) {
    if rep.alloc_count > 0 {
        let sz = rep.alloc_sizes.first().cloned().unwrap_or(0);
        let class = if sz >= 384 { "ge384" } else if sz >= 64 { "ge64" } else { "small" };
        violate("alloc_in_child", format!("alloc_in_child/exec_ok={}/first_size_class={}", success, class), format!("{}: {} heap allocation(s) between fork and exec (sizes {:?})", ctx, rep.alloc_count, rep.alloc_sizes));
    }
}

/// C15 + C17 on failed launches + escapes.
fn judge_lookup(spec: &SpawnSpec, spawn_idx: usize, mo: &ModelOut, ctx: &str) {
    let s = sim();
    let c = match s.k.all_procs().find(|c| c.kind == PKind::Child(spawn_idx)) {
        Some(c) => c,
        None => return,
    };
    let rep = match &c.report {
        Some(r) => r,
        None => return,
    };
    let tried: Vec<Vec<u8>> = rep.calls.iter().filter_map(|cl| if let ChildOp::Exec { rec } = &cl.op { Some(rec.path.clone()) } else { None }).collect();
    let cmd: &Vec<u8> = spec.executable.as_ref().unwrap_or(&spec.argv[0]);
    if cmd.contains(&b'/') && !cmd.contains(&0) && (tried.len() > 1 || tried.first().map(|t| t != cmd).unwrap_or(false)) {
        violate("searched_with_slash", "searched_with_slash".into(), format!("{}: name {:?} contains a slash but these were tried: {:?}", ctx, String::from_utf8_lossy(cmd), tried.iter().map(|t| String::from_utf8_lossy(t).into_owned()).collect::<Vec<_>>()));
    }
    if !mo.cands.is_empty() && !tried.is_empty() {
        // tried candidates must be a prefix of the model's order
        let ok = tried.len() <= mo.cands.len() && tried.iter().zip(mo.cands.iter()).all(|(a, b)| a == b);
        if !ok {
            violate("wrong_candidate", "wrong_candidate/order".into(), format!("{}: candidates tried {:?}, PATH order is {:?}", ctx, tried.iter().map(|t| String::from_utf8_lossy(t).into_owned()).collect::<Vec<_>>(), mo.cands.iter().map(|t| String::from_utf8_lossy(t).into_owned()).collect::<Vec<_>>()));
        }
    }
    if c.exec.is_none() {
        if tried.len() > 1 {
            s.k.probe("path_search_all_failed");
        }
    } else if tried.len() > 1 {
        s.k.probe("path_search_skipped_candidates");
    }
}

/// C08: no child holds a library pipe end that is not one of its own standard streams.
pub fn judge_leaks() {
    let s = sim();
    let mut cross_hits = 0u64;
    let mut cross_kinds: Vec<&'static str> = vec![];
    for c in s.k.all_procs() {
        if !matches!(c.kind, PKind::Child(_)) || c.exec.is_none() {
            continue;
        }
        let own: Vec<usize> = (0..3).filter_map(|fd| c.exec_fds.get(&fd).cloned()).collect();
        for (fd, d) in c.exec_fds.iter() {
            if *fd <= 2 {
                continue;
            }
            let (pi, end) = match s.k.descs[*d].kind {
                DescKind::PipeR(pi) => (pi, "read"),
                DescKind::PipeW(pi) => (pi, "write"),
                _ => continue,
            };
            if s.k.pipes[pi].origin != Origin::Lib {
                continue;
            }
            let role = pipe_role(pi);
            if own.contains(d) {
                // a second descriptor for one of the child's own standard streams: closing the
                // stream (a daemonizing child closes 0, 1 and 2) does not release the pipe
                violate("fd_leak_child", format!("fd_leak_child/extra_copy_of_own_stream/pipe={}/end={}", role, end), format!("child {} ({:?}) holds descriptor {} = a second descriptor for the {} end of the pipe that is also one of its standard streams ({}): closing the standard stream does not give the other side end-of-file", c.pid, c.kind, fd, end, role));
                continue;
            }
            let cross = match (s.k.pipes[pi].creator, c.forked_by) {
                (Some(a), Some(b)) => a != b,
                _ => false,
            };
            if cross {
                // the pipe belongs to a spawn in progress on another thread
                violate("fd_leak_child", "fd_leak_child/cause=concurrent_spawn_on_other_thread".into(), format!("child {} ({:?}, forked by thread {:?}) holds descriptor {} = {} end of a pipe ({}) that thread {:?} created for a spawn of its own", c.pid, c.kind, c.forked_by, fd, end, role, s.k.pipes[pi].creator));
                cross_hits += 1;
                cross_kinds.push(match (role.starts_with("some_childs"), end) {
                    (true, "write") => "cross_leak_stdio_write_end",
                    (true, _) => "cross_leak_stdio_read_end",
                    _ => "cross_leak_status_or_other_pipe",
                });
            } else {
                violate("fd_leak_child", format!("fd_leak_child/pipe={}/end={}", role, end), format!("child {} ({:?}) holds descriptor {} = {} end of a library pipe ({}) that is not one of its standard streams", c.pid, c.kind, fd, end, role));
            }
        }
    }
    for _ in 0..cross_hits {
        sim().k.probe("cross_thread_pipe_inherited");
    }
    for k in cross_kinds {
        sim().k.probe(k);
    }
}

/// C08, the consequence, for children that stay alive: once every child (and descendant) has
/// closed its standard streams - what a daemonizing program does - every library pipe whose
/// other end the parent holds must be widowed, although the processes are all still running.
/// Destructive (closes the children's descriptors): run it last, before the children are killed.
pub fn judge_release_on_std_close() {
    let s = sim();
    if s.poisoned.is_some() {
        return;
    }
    let pids: Vec<i32> = s.k.procs.values().filter(|c| c.pid != PARENT_PID && c.alive() && c.state != PState::PreExec && c.exec.is_some()).map(|c| c.pid).collect();
    if pids.is_empty() {
        return;
    }
    for pid in pids.iter() {
        for fd in 0..3 {
            let _ = s.k.k_close(*pid, fd);
        }
    }
    let parent_descs: Vec<usize> = s.k.procs.get(&PARENT_PID).map(|p| p.fds.values().map(|e| e.desc).collect()).unwrap_or_default();
    for pi in 0..s.k.pipes.len() {
        let (origin, rdesc, wdesc, r_open, w_open, creator) = {
            let p = &s.k.pipes[pi];
            (p.origin, p.rdesc, p.wdesc, p.r_open, p.w_open, p.creator)
        };
        if origin != Origin::Lib {
            continue;
        }
        let parent_reads = parent_descs.contains(&rdesc);
        let parent_writes = parent_descs.contains(&wdesc);
        // the parent holding both ends is its own business (nothing here does)
        let (stuck, desc, what) = if parent_reads && !parent_writes && w_open {
            (true, wdesc, "write")
        } else if parent_writes && !parent_reads && r_open {
            (true, rdesc, "read")
        } else {
            (false, 0, "")
        };
        if !stuck {
            continue;
        }
        let h: Vec<(i32, PKind, Option<u8>, Vec<i32>)> = s.k.procs.values().filter(|c| c.pid != PARENT_PID && c.alive()).filter_map(|c| {
            let fds: Vec<i32> = c.fds.iter().filter(|(_, e)| e.desc == desc).map(|(fd, _)| *fd).collect();
            if fds.is_empty() { None } else { Some((c.pid, c.kind, c.forked_by, fds)) }
        }).collect();
        if h.is_empty() {
            continue;
        }
        let cross = h.iter().any(|(_, _, fb, _)| fb.is_some() && creator.is_some() && *fb != creator);
        let role = pipe_role(pi);
        violate(
            "eof_blocked_by_stranger",
            if cross { "eof_blocked_by_stranger/cause=concurrent_spawn_on_other_thread".to_string() } else { format!("eof_blocked_by_stranger/after=children_closed_std_streams/pipe={}/end={}", role, what) },
            format!("every child has closed its standard streams, but the {} end of a library pipe ({}) whose other end the parent holds is still open in {:?}: no end-of-file / broken pipe until those processes exit", what, role, h),
        );
        sim().k.probe("std_close_release_violated");
    }
    sim().k.probe("std_close_release_checked");
}

/// what a library-created pipe is used for, judged from who holds its ends at exec time
fn pipe_role(pi: usize) -> String {
    let s = sim();
    let p = &s.k.pipes[pi];
    if !p.label.is_empty() {
        return p.label.clone();
    }
    // a pipe no child has at 0/1/2: the launch-status channel or a parent-side helper
    let mut used_as = vec![];
    for c in s.k.all_procs() {
        for fd in 0..3 {
            if let Some(d) = c.exec_fds.get(&fd) {
                if *d == p.rdesc || *d == p.wdesc {
                    used_as.push(["stdin", "stdout", "stderr"][fd as usize]);
                }
            }
        }
    }
    used_as.sort();
    used_as.dedup();
    if used_as.is_empty() {
        "no_childs_std_stream".into()
    } else {
        format!("some_childs_{}", used_as.join("+"))
    }
}

// ---------------------------------------------------------------------------
// generation
// ---------------------------------------------------------------------------

const REDIRS: [RedirSpec; 5] = [RedirSpec::None, RedirSpec::Pipe, RedirSpec::File, RedirSpec::RcFile(0), RedirSpec::Merge];

fn gen_bytes(rng: &mut Rng, maxlen: usize, nul_ok: bool) -> Vec<u8> {
    let len = match rng.below(8) {
        0 => 0,
        1 => 1,
        2 => rng.below(8) as usize,
        3 => rng.below(64) as usize,
        _ => rng.below(maxlen as u64 + 1) as usize,
    };
    (0..len)
        .map(|_| {
            let b = match rng.below(6) {
                0 => *rng.pick(b" \t\n\"'\\$`*?[]{}()<>|&;!#~="),
                1 => rng.range(0x80, 0xff) as u8,
                _ => rng.range(0x20, 0x7e) as u8,
            };
            if b == 0 && !nul_ok {
                1
            } else {
                b
            }
        })
        .collect()
}

fn gen_key(rng: &mut Rng) -> Vec<u8> {
    // names that differ only in the case of their letters are different names
    if rng.chance(1, 8) {
        return rng.pick(&[&b"http_proxy"[..], b"HTTP_PROXY", b"Http_Proxy", b"path", b"Path", b"home", b"lang"]).to_vec();
    }
    let n = 1 + rng.below(10) as usize;
    (0..n).map(|_| *rng.pick(b"ABCDEFGHIJKLMNOPQRSTUVWXYZabcdefxyz_0123456789\xc3\xa9")).collect()
}

fn small_child(rng: &mut Rng) -> Vec<Op> {
    match rng.below(4) {
        0 => vec![],
        1 => vec![Op::ReadAll { fd: 0, chunk: 4096 }, Op::Exit { code: rng.below(3) as i32 }],
        2 => vec![Op::Write { fd: 1, stream: 1, len: rng.below(300) as usize, chunk: 64 }, Op::Write { fd: 2, stream: 2, len: rng.below(300) as usize, chunk: 64 }],
        _ => vec![Op::Sleep { ns: rng.range(0, 50_000_000) }, Op::Exit { code: 0 }],
    }
}

fn base_fs(plan: &mut Plan, rng: &mut Rng) {
    plan.add_program("prog", small_child(rng));
    plan.fs.push(FsEntry { path: "/work/sub".into(), node: Node::Dir { searchable: true }, raw: None });
    plan.fs.push(FsEntry { path: "/work/locked".into(), node: Node::Dir { searchable: false }, raw: None });
    plan.fs.push(FsEntry { path: "/work/file".into(), node: Node::NoExec, raw: None });
    let id = plan.programs.len();
    plan.programs.push(small_child(rng));
    plan.fs.push(FsEntry { path: "/work/sub/tool".into(), node: Node::Exe { prog: id }, raw: None });
    plan.fs.push(FsEntry { path: "/work/tool".into(), node: Node::Exe { prog: id }, raw: None });
}

fn gen_streams(rng: &mut Rng, spec: &mut SpawnSpec, allow_invalid: bool) {
    let pick = |rng: &mut Rng| match rng.below(8) {
        0 | 1 => RedirSpec::None,
        2 | 3 => RedirSpec::Pipe,
        4 => RedirSpec::File,
        5 => RedirSpec::RcFile(rng.below(2) as usize),
        6 => RedirSpec::FileDup(rng.below(2) as usize),
        _ => RedirSpec::Merge,
    };
    spec.stdin = pick(rng);
    spec.stdout = pick(rng);
    spec.stderr = pick(rng);
    if !allow_invalid {
        if spec.stdin == RedirSpec::Merge {
            spec.stdin = RedirSpec::None;
        }
        if spec.stdout == RedirSpec::Merge && spec.stderr == RedirSpec::Merge {
            spec.stderr = RedirSpec::None;
        }
    }
}

/// parent signal state for C18: mask of the spawning thread and SIGPIPE disposition
pub fn gen_signal_state(rng: &mut Rng, plan: &mut Plan) {
    let blockable: Vec<i32> = (1..=64).filter(|s| *s != 9 && *s != 19 && *s != 32 && *s != 33).collect();
    let mut mask = 0u64;
    match rng.below(4) {
        0 => {}
        1 => mask = sigbit(*rng.pick(&blockable)),
        2 => {
            for s in &blockable {
                if rng.chance(1, 2) {
                    mask |= sigbit(*s);
                }
            }
        }
        _ => {
            for s in &blockable {
                mask |= sigbit(*s);
            }
        }
    }
    plan.parent.sigmask = mask;
    plan.parent.sigpipe = *rng.pick(&[Disp::Ignore, Disp::Ignore, Disp::Default, Disp::Handler]);
}

pub fn generate(prop: &str, rng: &mut Rng, plan: &mut Plan, index: u64) {
    let mut sp = SpawnPlan::default();
    base_fs(plan, rng);
    match prop {
        "C05" => {
            // the 125 combinations are enumerated by the run index
            let combo = (index % 125) as usize;
            let n = 1 + rng.below(3) as usize;
            for j in 0..n {
                let mut spec = SpawnSpec::default();
                if j == 0 {
                    spec.stdin = REDIRS[combo % 5];
                    spec.stdout = REDIRS[(combo / 5) % 5];
                    spec.stderr = REDIRS[(combo / 25) % 5];
                    // variants of "file": shared Rc, dup of the same description
                    for s in [&mut spec.stdin, &mut spec.stdout, &mut spec.stderr] {
                        if *s == RedirSpec::RcFile(0) {
                            *s = match rng.below(3) {
                                0 => RedirSpec::RcFile(0),
                                1 => RedirSpec::RcFile(1),
                                _ => RedirSpec::FileDup(0),
                            };
                        }
                    }
                } else {
                    gen_streams(rng, &mut spec, true);
                    if rng.chance(1, 3) {
                        spec.repoint_before = Some(1 + rng.below(2) as u8);
                        // make the case that matters frequent: a merge onto the inherited stream, before and after
                        if rng.chance(1, 2) {
                            spec.stdin = RedirSpec::None;
                            if rng.chance(1, 2) {
                                spec.stdout = RedirSpec::Merge;
                                spec.stderr = RedirSpec::None;
                            } else {
                                spec.stdout = RedirSpec::None;
                                spec.stderr = RedirSpec::Merge;
                            }
                        }
                    }
                }
                // Exec refuses Merge for stdin by panicking in a From impl; use it only for valid combinations
                let valid = spec.stdin != RedirSpec::Merge && !(spec.stdout == RedirSpec::Merge && spec.stderr == RedirSpec::Merge);
                spec.via_exec = valid && rng.chance(1, 3);
                spec.keep = rng.chance(1, 3);
                sp.spawns.push(spec);
            }
            // spawns from (short-lived) threads that exit afterwards
            if index % 4 == 3 {
                sp.threads = 1 + rng.below(3) as usize;
                plan.knobs.personality = crate::sim::Personality::Uniform;
            }
        }
        "C06" => {
            let n = 1 + rng.below(2) as usize;
            if rng.chance(1, 3) {
                plan.parent.cred = Cred::user(1000, 1000);
            } else if rng.chance(1, 4) {
                // a set-user-id-root program: real and effective identity differ
                plan.parent.cred = Cred { ruid: 1000, euid: 0, suid: 0, rgid: 1000, egid: 0, sgid: 0 };
            }
            for _ in 0..n {
                let mut spec = SpawnSpec::default();
                let big = rng.chance(1, 12);
                let nargs = if big { rng.range(50, 300) as usize } else { rng.below(8) as usize };
                for _ in 0..nargs {
                    spec.argv.push(gen_bytes(rng, if big { 200 } else { 60 }, false));
                }
                if rng.chance(1, 30) {
                    spec.argv.push(gen_bytes(rng, 40_000, false));
                }
                if rng.chance(1, 3) {
                    // a different program name than the executable
                    spec.executable = Some(b"/bin/prog".to_vec());
                    spec.argv[0] = gen_bytes(rng, 30, false);
                    if spec.argv[0].is_empty() {
                        spec.argv[0] = b"x".to_vec();
                    }
                }
                if rng.chance(2, 3) {
                    let ne = rng.below(if big { 120 } else { 10 }) as usize;
                    let mut env = vec![];
                    let keys: Vec<Vec<u8>> = (0..3).map(|_| gen_key(rng)).collect();
                    for _ in 0..ne {
                        let k = if rng.chance(1, 3) { rng.pick(&keys).clone() } else { gen_key(rng) };
                        env.push((k, gen_bytes(rng, 80, false)));
                    }
                    spec.env = Some(env);
                }
                match rng.below(6) {
                    0 => spec.cwd = Some(b"/work/sub".to_vec()),
                    1 => spec.cwd = Some(b"sub".to_vec()),
                    2 => spec.cwd = Some(b"/work/missing".to_vec()),
                    3 => spec.cwd = Some(b"/".to_vec()),
                    // a directory only root may enter: the order of chdir and the identity change matters
                    4 => spec.cwd = Some(b"/work/locked".to_vec()),
                    _ => {}
                }
                if rng.chance(1, 2) {
                    spec.setuid = if rng.chance(1, 2) { Some(*rng.pick(&[0u32, 1000, 1001, 65534])) } else { None };
                    spec.setgid = if rng.chance(1, 2) { Some(*rng.pick(&[0u32, 1000, 100, 65534])) } else { None };
                    spec.setpgid = rng.chance(1, 2);
                }
                // NUL somewhere
                if rng.chance(1, 8) {
                    // ... in front, in the middle, or as the very last byte (where a C string ends anyway)
                    let with_nul = |rng: &mut Rng, mut v: Vec<u8>| -> Vec<u8> {
                        let at = match rng.below(3) {
                            0 => 0,
                            1 => v.len() / 2,
                            _ => v.len(),
                        };
                        v.insert(at, 0);
                        v
                    };
                    match rng.below(4) {
                        0 => {
                            let i = rng.below(spec.argv.len() as u64) as usize;
                            let a = std::mem::take(&mut spec.argv[i]);
                            spec.argv[i] = with_nul(rng, a);
                        }
                        1 => spec.env = Some(vec![(with_nul(rng, b"KEY".to_vec()), b"v".to_vec())]),
                        2 => spec.env = Some(vec![(b"KEY".to_vec(), with_nul(rng, b"vw".to_vec()))]),
                        _ => spec.executable = Some(with_nul(rng, b"/bin/prog".to_vec())),
                    }
                }
                spec.via_exec = spec.executable.is_none() && !spec.setpgid && rng.chance(1, 3);
                spec.via_clone = rng.chance(1, 5);
                gen_streams(rng, &mut spec, false);
                sp.spawns.push(spec);
            }
            // "the parent's when unspecified" means the block as it is, whatever is in it
            if rng.chance(1, 5) {
                plan.parent.env_odd = true;
            }
        }
        "C07" => {
            // configuration from index/64, injection point from index%64
            let cfg_seed = crate::rng::mix(&[plan.seed ^ index, index / 64, 0xC07]);
            let mut crng = Rng::new(crate::rng::mix(&[0xC07C07, index / 64]));
            let _ = cfg_seed;
            plan.programs.clear();
            plan.fs.clear();
            base_fs(plan, &mut crng);
            plan.knobs = gen_knobs(&mut crng);
            let mut spec = SpawnSpec::default();
            gen_streams(&mut crng, &mut spec, false);
            spec.detached = crng.chance(1, 2);
            if crng.chance(1, 2) {
                spec.cwd = Some(b"/work/sub".to_vec());
            }
            if crng.chance(1, 3) {
                spec.setuid = Some(1000);
            }
            if crng.chance(1, 3) {
                spec.setgid = Some(1000);
            }
            if spec.setuid.is_some() && spec.setgid.is_some() {
                // the pair is judged by C06; keep C07 about failure paths
                spec.setgid = None;
            }
            spec.setpgid = crng.chance(1, 3);
            let search = crng.chance(1, 2);
            if search {
                spec.argv[0] = b"prog".to_vec();
                plan.parent.env[0].1 = "/nowhere:/work/locked:/bin".into();
            }
            let point = index % 64;
            // "any errno": the whole classic range plus a few high ones
            let mut errnos: Vec<i32> = (1..=40).collect();
            errnos.extend_from_slice(&[libc::ELOOP, libc::ENAMETOOLONG, libc::EOVERFLOW, libc::EDQUOT, libc::ENOTSUP, 133, 255, 256, 65535, 0x7fff_ffff]);
            let e = errnos[(index / 64 % errnos.len() as u64) as usize];
            let f = &mut plan.knobs.faults;
            plan.knobs.batch = if point == 0 { "fault_free".into() } else { "faulty".into() };
            match point {
                0 => {}
                1..=10 => f.fdalloc = Some((point as u32, if e == libc::ENFILE { libc::ENFILE } else { libc::EMFILE })),
                11..=22 => f.fcntl_setfd = Some(((point - 10) as u32, if point % 2 == 0 { libc::EBADF } else { libc::EINVAL })),
                23 | 24 => f.fork = Some((1, if point == 23 { libc::EAGAIN } else { libc::ENOMEM })),
                25..=36 => f.child_step = Some((0, (point - 25) as u32 % 6, e)),
                37..=44 => f.exec_errno = vec![(0, (point - 37) as u32 % 4, e)],
                45 => f.exec_errno = vec![(0, 0, libc::EACCES), (0, 1, libc::ENOENT), (0, 2, e)],
                46 => spec.argv[0] = b"/bin/missing".to_vec(),
                47 => spec.argv[0] = b"/work/file".to_vec(),
                48 => spec.argv[0] = b"/work/sub".to_vec(),
                49 => spec.cwd = Some(b"/work/missing".to_vec()),
                50 => spec.cwd = Some(if index / 64 % 2 == 0 { b"/work/file".to_vec() } else { b"/work/file/below".to_vec() }),
                51 => {
                    plan.parent.cred = Cred::user(1000, 1000);
                    spec.setuid = Some(0);
                }
                52 => {
                    plan.parent.cred = Cred::user(1000, 1000);
                    spec.setgid = Some(5);
                    spec.setuid = None;
                }
                53 => spec.argv[0] = b"missing".to_vec(),
                54 => {
                    plan.parent.cred = Cred::user(1000, 1000);
                    spec.cwd = Some(b"/work/locked".to_vec());
                    spec.setuid = None;
                    spec.setgid = None;
                }
                55 => spec.argv[0] = b"/work/file/x".to_vec(),
                56 => {
                    plan.fs.push(FsEntry { path: "/work/script".into(), node: Node::NotBinary, raw: None });
                    spec.argv[0] = b"/work/script".to_vec();
                }
                57 => {
                    // two spawns: the fault hits the second while the first is alive
                    f.fdalloc = Some((1 + crng.range(4, 12) as u32, libc::EMFILE));
                }
                // a signal handler runs while the parent waits for the launch status (or, with a
                // failing launch, for the child): the launch must neither fail nor lose the child
                // the failed child takes its time to go away: it must still be waited for
                58 | 59 => {
                    f.exit_lag_ns = *crng.pick(&[20_000_000u64, 200_000_000, 3_000_000_000]);
                    spec.argv[0] = b"/bin/missing".to_vec();
                    spec.detached = point == 59;
                }
                60 => f.eintr = Some((1, 1, 2)),
                61 => {
                    f.eintr = Some((1, 2, 6));
                    spec.argv[0] = b"/bin/missing".to_vec();
                }
                62 => f.eintr = Some((1, 1 + crng.below(3) as u32, 7)),
                63 => {
                    f.eintr = Some((1, 1, 2));
                    spec.detached = true;
                }
                _ => {
                    f.fdalloc = Some((crng.range(1, 9) as u32, libc::EMFILE));
                    spec.detached = true;
                }
            }
            spec.via_exec = spec.executable.is_none() && !spec.setpgid && crng.chance(1, 4);
            if point == 57 {
                let mut first = spec.clone();
                first.keep = true;
                first.detached = false;
                sp.spawns.push(first);
            }
            sp.spawns.push(spec);
        }
        "C15" => {
            // a PATH with entries of every kind and candidates placed among them
            let nent = rng.below(8) as usize;
            let mut path_entries: Vec<String> = vec![];
            let cmd_len = match rng.below(6) {
                0 => 1,
                1 => 255,
                2 => rng.range(100, 254) as usize,
                _ => rng.range(2, 20) as usize,
            };
            let cmd: String = (0..cmd_len).map(|i| (b'a' + ((i * 7 + rng.below(3) as usize) % 26) as u8) as char).collect();
            for i in 0..nent {
                let dir = match rng.below(10) {
                    0 => String::new(),
                    1 => format!("/p/missing{}", i),
                    2 => "/work/locked".to_string(),
                    3 => {
                        if rng.chance(1, 3) {
                            // so long that <dir>/<name> does not fit into PATH_MAX: the candidate is skipped (ENAMETOOLONG)
                            let mut d = String::from("/p");
                            while d.len() < 4090 {
                                d.push('/');
                                d.push_str(&"e".repeat(200));
                            }
                            d
                        } else {
                            format!("/p/{}", "d".repeat(rng.range(200, 250) as usize))
                        }
                    }
                    4 if i > 0 => path_entries[rng.below(i as u64) as usize].clone(),
                    5 => format!("rel{}", i),
                    6 => "/work/file".to_string(),
                    _ => format!("/p/d{}", i),
                };
                if !dir.is_empty() && !dir.contains("missing") && dir != "/work/locked" && dir != "/work/file" {
                    let full = if dir.starts_with('/') { dir.clone() } else { format!("/work/{}", dir) };
                    plan.fs.push(FsEntry { path: full.clone(), node: Node::Dir { searchable: true }, raw: None });
                    // candidate kind in this directory
                    let node = match rng.below(7) {
                        0 | 1 => Some(Node::Exe { prog: 0 }),
                        2 => Some(Node::NoExec),
                        3 => Some(Node::Dir { searchable: true }),
                        4 => Some(Node::NotBinary),
                        _ => None,
                    };
                    if let Some(n) = node {
                        let n = if let Node::Exe { .. } = n {
                            let id = plan.programs.len();
                            plan.programs.push(vec![Op::Exit { code: (i % 200) as i32 }]);
                            Node::Exe { prog: id }
                        } else {
                            n
                        };
                        plan.fs.push(FsEntry { path: format!("{}/{}", full, cmd), node: n, raw: None });
                    }
                }
                if dir == "/work/locked" && rng.chance(1, 2) {
                    plan.fs.push(FsEntry { path: format!("/work/locked/{}", cmd), node: Node::Exe { prog: 0 }, raw: None });
                }
                path_entries.push(dir);
            }
            let mut path = path_entries.join(":");
            match rng.below(12) {
                0 => path = ":".into(),
                1 => path = "::".into(),
                2 => path = format!(":{}:", path),
                _ => {}
            }
            if path.is_empty() {
                path = ":".into();
            }
            plan.parent.env[0].1 = path.clone();
            if rng.chance(1, 5) {
                // a PATH that is not valid UTF-8: one more directory whose name contains 0xff, holding a candidate
                let mut dir = b"/p/odd".to_vec();
                dir.push(0xff);
                dir.extend_from_slice(b"dir");
                let mut cand = dir.clone();
                cand.push(b'/');
                cand.extend_from_slice(cmd.as_bytes());
                let id = plan.programs.len();
                plan.programs.push(vec![Op::Exit { code: 77 }]);
                plan.fs.push(FsEntry { path: String::new(), node: Node::Dir { searchable: true }, raw: Some(dir.clone()) });
                plan.fs.push(FsEntry { path: String::new(), node: Node::Exe { prog: id }, raw: Some(cand) });
                let mut raw = path.as_bytes().to_vec();
                if rng.chance(1, 2) {
                    raw.push(b':');
                    raw.extend_from_slice(&dir);
                } else {
                    let mut r2 = dir.clone();
                    r2.push(b':');
                    r2.extend_from_slice(&raw);
                    raw = r2;
                }
                plan.parent.path_raw = Some(raw);
            }
            if rng.chance(1, 4) {
                plan.parent.cred = Cred::user(1000, 1000);
            }
            let mut spec = SpawnSpec::default();
            match rng.below(8) {
                0 => {
                    // a name with a slash: relative to the child's cwd - not to the parent's, where a
                    // file of the same name may sit as well (or only there: then nothing can be started)
                    let variant = rng.below(4);
                    if variant != 3 {
                        plan.fs.push(FsEntry { path: format!("/work/sub/{}", cmd), node: Node::Exe { prog: 0 }, raw: None });
                    }
                    if variant >= 2 {
                        let id = plan.programs.len();
                        plan.programs.push(vec![Op::Exit { code: 98 }]);
                        plan.fs.push(FsEntry { path: format!("/work/{}", cmd), node: Node::Exe { prog: id }, raw: None });
                    }
                    spec.argv[0] = format!("./{}", cmd).into_bytes();
                    spec.cwd = Some(b"/work/sub".to_vec());
                }
                1 => {
                    spec.argv[0] = format!("sub/{}", cmd).into_bytes();
                    if rng.chance(1, 2) {
                        plan.fs.push(FsEntry { path: format!("/work/sub/{}", cmd), node: Node::Exe { prog: 0 }, raw: None });
                    }
                }
                2 => {
                    // an explicitly named executable follows the same rules, whatever argv[0] looks like
                    match rng.below(3) {
                        0 => {
                            spec.executable = Some(cmd.clone().into_bytes());
                            spec.argv[0] = b"shown-name".to_vec();
                        }
                        1 => {
                            // bare executable (searched), argv[0] with slashes
                            spec.executable = Some(cmd.clone().into_bytes());
                            spec.argv[0] = b"/opt/shown/name".to_vec();
                        }
                        _ => {
                            // executable with a slash (no search, relative to the child's cwd), bare argv[0]
                            plan.fs.push(FsEntry { path: format!("/work/sub/{}", cmd), node: Node::Exe { prog: 0 }, raw: None });
                            if rng.chance(1, 2) {
                                let id = plan.programs.len();
                                plan.programs.push(vec![Op::Exit { code: 98 }]);
                                plan.fs.push(FsEntry { path: format!("/work/{}", cmd), node: Node::Exe { prog: id }, raw: None });
                            }
                            spec.executable = Some(format!("./{}", cmd).into_bytes());
                            spec.argv[0] = b"shown".to_vec();
                            spec.cwd = Some(b"/work/sub".to_vec());
                        }
                    }
                }
                _ => spec.argv[0] = cmd.clone().into_bytes(),
            }
            // an explicit environment for the child with a PATH of its own: the search still
            // goes by the parent's PATH, and an impostor under the child's PATH must not run
            if rng.chance(1, 5) {
                let id = plan.programs.len();
                plan.programs.push(vec![Op::Exit { code: 99 }]);
                plan.fs.push(FsEntry { path: "/p/impostor".into(), node: Node::Dir { searchable: true }, raw: None });
                plan.fs.push(FsEntry { path: format!("/p/impostor/{}", cmd), node: Node::Exe { prog: id }, raw: None });
                let mut env = vec![(b"PATH".to_vec(), b"/p/impostor".to_vec())];
                if rng.chance(1, 2) {
                    env.insert(0, (b"HOME".to_vec(), b"/work".to_vec()));
                }
                spec.env = Some(env);
            }
            // per-candidate exec errors
            if rng.chance(1, 3) {
                let n = 1 + rng.below(3);
                for _ in 0..n {
                    plan.knobs.faults.exec_errno.push((0, rng.below(6) as u32, *rng.pick(&[libc::ENOENT, libc::EACCES, libc::ENOTDIR, libc::ENOEXEC, libc::ELOOP, libc::ENAMETOOLONG, libc::ETXTBSY, libc::EIO])));
                }
                plan.knobs.batch = "faulty".into();
            }
            sp.spawns.push(spec);
        }
        "C17" => {
            let mut spec = SpawnSpec::default();
            // command-name length, PATH shape, argument/env sizes, cwd length
            let cmd_len = *rng.pick(&[1usize, 2, 10, 100, 255]);
            let cmd: String = (0..cmd_len).map(|i| (b'a' + (i % 26) as u8) as char).collect();
            let nent = rng.below(12) as usize;
            let mut entries = vec![];
            let longest_at = rng.below(nent.max(1) as u64) as usize;
            for i in 0..nent {
                let l = if i == longest_at { rng.range(100, 250) as usize } else { rng.range(1, 40) as usize };
                let d = format!("/q/{}{}", "e".repeat(l), i);
                plan.fs.push(FsEntry { path: d.clone(), node: Node::Dir { searchable: true }, raw: None });
                entries.push(d);
            }
            let succeed = rng.chance(2, 3);
            if succeed && nent > 0 {
                let at = rng.below(nent as u64) as usize;
                plan.fs.push(FsEntry { path: format!("{}/{}", entries[at], cmd), node: Node::Exe { prog: 0 }, raw: None });
            }
            if rng.chance(1, 12) {
                // a PATH made of nothing but separators: no candidate at all
                plan.parent.env[0].1 = ":".repeat(1 + rng.below(3) as usize);
                plan.fs.push(FsEntry { path: format!("/work/{}", cmd), node: Node::Exe { prog: 0 }, raw: None });
                spec.argv[0] = cmd.into_bytes();
            } else if nent > 0 && rng.chance(2, 3) {
                let mut parts = entries.clone();
                if rng.chance(1, 4) {
                    // empty entries: in front, in between, at the end
                    for _ in 0..1 + rng.below(3) {
                        let at = rng.below(parts.len() as u64 + 1) as usize;
                        parts.insert(at, String::new());
                    }
                }
                plan.parent.env[0].1 = parts.join(":");
                if rng.chance(1, 5) {
                    // a PATH entry that is not valid UTF-8 (searched before the others)
                    let mut dir = b"/q/odd".to_vec();
                    dir.push(0xff);
                    dir.extend_from_slice(b"dir");
                    if rng.chance(1, 2) {
                        dir.push(b'/');
                    }
                    plan.fs.push(FsEntry { path: String::new(), node: Node::Dir { searchable: true }, raw: Some(dir.iter().cloned().filter(|b| true || *b != 0).collect::<Vec<u8>>().strip_suffix(b"/").map(|x| x.to_vec()).unwrap_or(dir.clone())) });
                    let mut raw = dir.clone();
                    raw.push(b':');
                    raw.extend_from_slice(entries.join(":").as_bytes());
                    plan.parent.path_raw = Some(raw);
                }
                spec.argv[0] = cmd.into_bytes();
            } else if !succeed {
                // every way an exec can fail: nothing there, not executable, a directory, not a binary
                match rng.below(4) {
                    0 => spec.argv[0] = b"/bin/missing".to_vec(),
                    1 => spec.argv[0] = b"/work/file".to_vec(),
                    2 => spec.argv[0] = b"/work/sub".to_vec(),
                    _ => {
                        plan.fs.push(FsEntry { path: "/work/script".into(), node: Node::NotBinary, raw: None });
                        spec.argv[0] = b"/work/script".to_vec();
                    }
                }
            }
            // ... and whatever error the kernel may give for a candidate (ENOEXEC, ETXTBSY, E2BIG, ...)
            if rng.chance(1, 8) {
                plan.knobs.faults.exec_errno = vec![(0, rng.below(3) as u32, *rng.pick(&[libc::ENOEXEC, libc::ETXTBSY, libc::E2BIG, libc::ENOMEM, libc::EACCES, libc::EIO]))];
                plan.knobs.batch = "faulty".into();
            }
            for _ in 0..rng.below(40) {
                spec.argv.push(gen_bytes(rng, 300, false));
            }
            if rng.chance(1, 2) {
                spec.env = Some((0..rng.below(60)).map(|_| (gen_key(rng), gen_bytes(rng, 200, false))).collect());
            }
            // cwd lengths across std's small-path stack buffer (384 bytes)
            if rng.chance(3, 4) {
                let target = *rng.pick(&[1usize, 50, 300, 382, 383, 384, 385, 400, 1000, 3000, 4000]);
                let mut p = String::from("/w");
                while p.len() + 2 < target {
                    let seg = (target - p.len() - 1).min(200);
                    p.push('/');
                    p.push_str(&"c".repeat(seg));
                }
                plan.fs.push(FsEntry { path: p.clone(), node: Node::Dir { searchable: true }, raw: None });
                if rng.chance(1, 6) {
                    spec.cwd = Some(format!("{}/missing", p).into_bytes());
                } else {
                    spec.cwd = Some(p.into_bytes());
                }
            }
            gen_streams(rng, &mut spec, false);
            if rng.chance(1, 4) {
                spec.setuid = Some(1000);
            }
            if rng.chance(1, 4) {
                spec.setgid = Some(*rng.pick(&[100u32, 1000, 0]));
            }
            spec.setpgid = rng.chance(1, 3);
            if rng.chance(1, 6) {
                plan.knobs.faults.child_step = Some((0, rng.below(5) as u32, libc::EPERM));
                plan.knobs.batch = "faulty".into();
            }
            sp.spawns.push(spec);
        }
        "C18" => {
            gen_signal_state(rng, plan);
            let n = 1 + rng.below(3) as usize;
            for _ in 0..n {
                let mut spec = SpawnSpec::default();
                gen_streams(rng, &mut spec, false);
                if rng.chance(1, 2) {
                    // consequence: producer whose consumer goes away
                    let id = plan.programs.len();
                    plan.programs.push(vec![Op::Flood { fd: 1, stream: 1, chunk: 4096, max: 1 << 30 }]);
                    plan.fs.push(FsEntry { path: "/bin/flood".into(), node: Node::Exe { prog: id }, raw: None });
                    spec.argv[0] = b"/bin/flood".to_vec();
                    spec.stdout = RedirSpec::Pipe;
                    if spec.stderr == RedirSpec::Merge {
                        spec.stderr = RedirSpec::None;
                    }
                    spec.sigpipe_probe = true;
                }
                // found by name on the PATH, after some candidates that cannot be started (whatever the
                // child does between two attempts must not leave a trace in the program that runs)
                if rng.chance(1, 3) {
                    let base = String::from_utf8_lossy(&spec.argv[0]).rsplit('/').next().unwrap_or("prog").to_string();
                    let misses = 1 + rng.below(3) as usize;
                    let mut dirs: Vec<String> = (0..misses).map(|i| format!("/p/miss{}", i)).collect();
                    for (i, d) in dirs.iter().enumerate() {
                        plan.fs.push(FsEntry { path: d.clone(), node: Node::Dir { searchable: true }, raw: None });
                        if i % 2 == 1 {
                            plan.fs.push(FsEntry { path: format!("{}/{}", d, base), node: Node::NoExec, raw: None });
                        }
                    }
                    dirs.push("/bin".into());
                    plan.parent.env[0].1 = dirs.join(":");
                    spec.argv[0] = base.into_bytes();
                }
                spec.via_exec = rng.chance(1, 3);
                // a process group of its own changes nothing about the signal state
                if !spec.via_exec && rng.chance(1, 4) {
                    spec.setpgid = true;
                }
                sp.spawns.push(spec);
            }
        }
        _ => {
            // C08 (single-threaded part): histories of spawns while earlier handles stay alive
            // long-lived children: a leaked descriptor only hurts while its holder lives
            plan.programs[0] = vec![Op::ReadAll { fd: 0, chunk: 4096 }, Op::Sleep { ns: 3_600_000_000_000 }];
            let n = 2 + rng.below(5) as usize;
            for _ in 0..n {
                let mut spec = SpawnSpec::default();
                gen_streams(rng, &mut spec, false);
                spec.keep = rng.chance(2, 3);
                spec.via_exec = rng.chance(1, 3);
                // long-lived children
                spec.argv[0] = b"/bin/prog".to_vec();
                sp.spawns.push(spec);
            }
            // the same from several threads spawning concurrently
            if index % 4 == 2 {
                sp.threads = 2 + rng.below(2) as usize;
                plan.knobs.personality = *rng.pick(&[crate::sim::Personality::Uniform, crate::sim::Personality::Bursty]);
                // one of the launches fails at exec (a busy or unusable executable) while the other
                // threads go about their pipes
                if rng.chance(1, 3) {
                    plan.knobs.faults.exec_errno = vec![(rng.below(n as u64) as u32, 0, *rng.pick(&[libc::ETXTBSY, libc::ETXTBSY, libc::EACCES, libc::ENOEXEC, libc::ENOMEM]))];
                    plan.knobs.batch = "faulty".into();
                }
            }
        }
    }
    // a parent that runs with some of its standard descriptors closed
    if matches!(prop, "C05" | "C07" | "C08" | "C17" | "C18") && sp.threads == 0 && rng.chance(1, 6) {
        let merge = sp.spawns.iter().any(|s| [s.stdin, s.stdout, s.stderr].contains(&RedirSpec::Merge));
        // (re-pointing the parent's own streams presupposes that it has them)
        let repoint = sp.spawns.iter().any(|s| s.repoint_before.is_some());
        if !merge && !repoint {
            plan.parent.closed_std = 1 + rng.below(7) as u8;
            plan.parent.files_low = rng.chance(1, 2);
        }
    }
    // an event-loop parent: its own standard streams are in non-blocking mode, and stay so
    if prop == "C05" && plan.parent.closed_std == 0 && rng.chance(1, 5) {
        plan.parent.nonblock_std = 1 + rng.below(7) as u8;
    }
    plan.body = Body::Spawn(sp);
}

//! Shrink candidates for plans (used by the minimiser): simpler knobs, fewer
//! faults, shorter programs, smaller sizes, fewer API steps.

use crate::plan::*;
use crate::prog::Op;
use crate::sim::Personality;

fn shrink_usize(v: usize) -> Vec<usize> {
    let mut c = vec![];
    for x in [0usize, 1, 4096, 4097, 65536, 65537, v / 2, v.saturating_sub(1)] {
        if x < v && !c.contains(&x) {
            c.push(x);
        }
    }
    c
}

fn shrink_ops(ops: &Vec<Op>) -> Vec<Vec<Op>> {
    let mut out = vec![];
    // drop one op
    for i in 0..ops.len() {
        let mut v = ops.clone();
        v.remove(i);
        out.push(v);
    }
    // shrink numbers inside one op
    for i in 0..ops.len() {
        let mut alts: Vec<Op> = vec![];
        match &ops[i] {
            Op::Write { fd, stream, len, chunk } => {
                for l in shrink_usize(*len) {
                    alts.push(Op::Write { fd: *fd, stream: *stream, len: l, chunk: *chunk });
                }
                if *chunk != 4096 {
                    alts.push(Op::Write { fd: *fd, stream: *stream, len: *len, chunk: 4096 });
                }
            }
            Op::ReadN { fd, total, chunk } => {
                for l in shrink_usize(*total) {
                    alts.push(Op::ReadN { fd: *fd, total: l, chunk: *chunk });
                }
            }
            Op::Flood { fd, stream, chunk, max } => {
                for l in shrink_usize(*max) {
                    alts.push(Op::Flood { fd: *fd, stream: *stream, chunk: *chunk, max: l });
                }
            }
            Op::Sleep { ns } => {
                if *ns > 0 {
                    alts.push(Op::Sleep { ns: ns / 2 });
                    alts.push(Op::Sleep { ns: 0 });
                }
            }
            Op::Trickle { fd, stream, pieces, piece_len, gap_ns } => {
                if *pieces > 1 {
                    alts.push(Op::Trickle { fd: *fd, stream: *stream, pieces: pieces / 2, piece_len: *piece_len, gap_ns: *gap_ns });
                }
                if *gap_ns > 1000 {
                    alts.push(Op::Trickle { fd: *fd, stream: *stream, pieces: *pieces, piece_len: *piece_len, gap_ns: gap_ns / 2 });
                }
            }
            Op::Cat { inp, out: o, chunk } if *chunk != 4096 => alts.push(Op::Cat { inp: *inp, out: *o, chunk: 4096 }),
            Op::Amplify { inp, out: o, err, chunk, k_out, k_err, so, se } => {
                if *k_out > 0 {
                    alts.push(Op::Amplify { inp: *inp, out: *o, err: *err, chunk: *chunk, k_out: k_out - 1, k_err: *k_err, so: *so, se: *se });
                }
                if *k_err > 0 {
                    alts.push(Op::Amplify { inp: *inp, out: *o, err: *err, chunk: *chunk, k_out: *k_out, k_err: k_err - 1, so: *so, se: *se });
                }
            }
            Op::Daemon { prog } => {
                for p in shrink_ops(prog) {
                    alts.push(Op::Daemon { prog: p });
                }
            }
            _ => {}
        }
        for a in alts {
            let mut v = ops.clone();
            v[i] = a;
            out.push(v);
        }
    }
    out
}

pub fn candidates(plan: &Plan) -> Vec<Plan> {
    let mut out: Vec<Plan> = vec![];
    // knobs
    if plan.knobs.personality != Personality::ParentGreedy {
        let mut p = plan.clone();
        p.knobs.personality = Personality::ParentGreedy;
        out.push(p);
    }
    if plan.knobs.pipe_caps.len() > 1 {
        let mut p = plan.clone();
        p.knobs.pipe_caps.truncate(1);
        out.push(p);
    }
    if plan.knobs.pipe_caps != vec![65536] {
        let mut p = plan.clone();
        p.knobs.pipe_caps = vec![65536];
        out.push(p);
    }
    if plan.knobs.cost_ns != 2000 {
        let mut p = plan.clone();
        p.knobs.cost_ns = 2000;
        out.push(p);
    }
    // faults, one at a time
    {
        let f = &plan.knobs.faults;
        macro_rules! clear {
            ($cond:expr, $body:expr) => {
                if $cond {
                    let mut p = plan.clone();
                    #[allow(clippy::redundant_closure_call)]
                    ($body)(&mut p.knobs.faults);
                    out.push(p);
                }
            };
        }
        clear!(f.short_read_pm > 0, |f: &mut crate::kernel::FaultPlan| f.short_read_pm = 0);
        clear!(f.short_write_pm > 0, |f: &mut crate::kernel::FaultPlan| f.short_write_pm = 0);
        clear!(f.stall_pm > 0, |f: &mut crate::kernel::FaultPlan| f.stall_pm = 0);
        clear!(f.timer_late_ns > 0, |f: &mut crate::kernel::FaultPlan| f.timer_late_ns = 0);
        clear!(f.child_death.is_some(), |f: &mut crate::kernel::FaultPlan| f.child_death = None);
        clear!(f.fdalloc.is_some(), |f: &mut crate::kernel::FaultPlan| f.fdalloc = None);
        clear!(f.fcntl_setfd.is_some(), |f: &mut crate::kernel::FaultPlan| f.fcntl_setfd = None);
        clear!(f.fork.is_some(), |f: &mut crate::kernel::FaultPlan| f.fork = None);
        clear!(f.child_step.is_some(), |f: &mut crate::kernel::FaultPlan| f.child_step = None);
        clear!(!f.exec_errno.is_empty(), |f: &mut crate::kernel::FaultPlan| {
            f.exec_errno.pop();
        });
        clear!(f.foreign_reap, |f: &mut crate::kernel::FaultPlan| f.foreign_reap = false);
        clear!(f.bystanders, |f: &mut crate::kernel::FaultPlan| f.bystanders = false);
    }
    // body
    out.extend(crate::fam_shrink::body_candidates(plan));
    // programs (not for pipelines: their oracle's model is tied to the stage programs)
    if matches!(plan.body, Body::Pipe(_)) {
        return out;
    }
    for (pi, prog) in plan.programs.iter().enumerate() {
        for alt in shrink_ops(prog) {
            let mut p = plan.clone();
            p.programs[pi] = alt;
            out.push(p);
        }
    }
    out
}

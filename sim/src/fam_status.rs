//! Family `status`: poll / wait / wait_timeout / signals over histories (C09–C11).

use crate::api::*;
use crate::kernel::*;
use crate::plan::*;
use crate::prog::Op;
use crate::rng::Rng;
use crate::runner::FamOut;
use crate::sim::sim;
use serde::{Deserialize, Serialize};
use std::time::Duration;
use subprocess::unix::PopenExt;
use subprocess::{ExitStatus, Popen, PopenConfig};

#[derive(Serialize, Deserialize, Clone, Debug, PartialEq)]
pub enum StatusOp {
    Poll,
    Wait,
    WaitTimeout(u64),
    Pid,
    ExitStatus,
    Terminate,
    Kill,
    SendSignal(i32),
    Detach,
    /// harness lets virtual time pass
    Advance(u64),
    /// harness lets other entities take up to n steps
    Yield(usize),
}

#[derive(Serialize, Deserialize, Clone, Debug, Default)]
pub struct StatusPlan {
    pub ops: Vec<StatusOp>,
    /// virtual time after which the child ends by itself
    pub child_life_ns: u64,
    pub detached: bool,
    /// the child is started in a process group of its own
    #[serde(default)]
    pub setpgid: bool,
    /// the Popen is handed to another thread (it is Send) and all queries are made there,
    /// while the thread that started the child lives on
    #[serde(default)]
    pub other_thread: bool,
    /// file name of the child's executable (names with blanks and parentheses are names too)
    #[serde(default)]
    pub prog_name: Option<String>,
}

const DAY: u64 = 86_400 * 1_000_000_000;

fn gen_dur(rng: &mut Rng, life: u64, thorough_long: bool) -> u64 {
    match rng.below(13) {
        0 => 0,
        1 => rng.range(1, 999_999),
        2 => rng.range(1_000_000, 20_000_000),
        3 => rng.range(20_000_000, 900_000_000),
        4 => rng.range(1_000_000_000, 30_000_000_000),
        // around the child's own exit time
        5 => life.saturating_sub(rng.range(0, 2_000_000)),
        6 => life + rng.range(0, 2_000_000),
        7 => life,
        8 => rng.range(3_600, 3 * 3_600) * 1_000_000_000 / if thorough_long { 1 } else { 20 },
        9 => 26 * DAY + rng.range(0, 1_000_000_000),
        10 => 56 * DAY,
        // a little more than 2^32 ms (49.7 days), where a millisecond count in 32 bits starts over
        11 => (1u64 << 32) * 1_000_000 * (1 + rng.below(2)) + rng.range(0, 2_000_000_000),
        _ => rng.range(1_000_000, 200_000_000),
    }
}

pub fn generate(prop: &str, rng: &mut Rng, plan: &mut Plan, index: u64) {
    let mut sp = StatusPlan::default();
    // how the child ends
    let life = match rng.below(8) {
        0 => 0,
        1 => rng.range(1, 900_000),
        2 => rng.range(1_000_000, 150_000_000),
        3 => rng.range(150_000_000, 5_000_000_000),
        4 => rng.range(5_000_000_000, 600_000_000_000),
        5 => 400 * DAY,
        6 => rng.range(1, 300) * 1_000_000,
        _ => rng.range(1_000_000, 2_000_000_000),
    };
    sp.child_life_ns = life;
    let mut ops = vec![];
    match rng.below(6) {
        0 => ops.push(Op::SigAction { sig: SIGTERM, disp: Disp::Ignore }),
        1 => ops.push(Op::SigAction { sig: SIGTERM, disp: Disp::ExitWith(rng.below(256) as i32) }),
        2 => {
            let s = 1 + rng.below(64) as i32;
            ops.push(Op::SigAction { sig: s, disp: Disp::Count });
        }
        _ => {}
    }
    ops.push(Op::Sleep { ns: life });
    // termination cause: every exit code, every fatal signal
    if rng.chance(3, 5) {
        ops.push(Op::Exit { code: rng.below(256) as i32 });
    } else {
        let sig = loop {
            let s = 1 + rng.below(64) as i32;
            if matches!(default_action(s), DefAct::Term | DefAct::Core) && s != 32 && s != 33 {
                break s;
            }
        };
        ops.push(Op::Raise { sig });
        ops.push(Op::Exit { code: 99 });
    }
    if rng.chance(1, 6) {
        sp.prog_name = Some(rng.pick(&["nightly job", "a b c", "x (y) z", "(init)", "tool) 1 (x"]).to_string());
    }
    plan.add_program(sp.prog_name.as_deref().unwrap_or("child"), ops);
    // API history
    let n = 2 + rng.below(11) as usize;
    let long_ok = index % 97 == 0; // a few runs may wait for hours without the child exiting
    // thorough tier: now and then the full back-off loop of a multi-week timeout (tens of millions of iterations)
    let weeks_ok = crate::plan::thorough() && prop == "C11" && index % 40_000 == 11;
    for _ in 0..n {
        let op = match rng.below(if prop == "C11" { 14 } else { 18 }) {
            0 | 1 => StatusOp::Poll,
            2 => StatusOp::Wait,
            3 | 4 | 5 => StatusOp::WaitTimeout(gen_dur(rng, life, long_ok)),
            6 => StatusOp::Pid,
            7 => StatusOp::ExitStatus,
            8 | 9 => StatusOp::Advance(gen_dur(rng, life, false).min(2 * life + 3_000_000_000)),
            10 => StatusOp::Yield(1 + rng.below(4) as usize),
            11 => StatusOp::WaitTimeout(gen_dur(rng, life, long_ok)),
            12 => StatusOp::Poll,
            13 => StatusOp::Detach,
            14 => StatusOp::Terminate,
            15 => StatusOp::Kill,
            16 => StatusOp::SendSignal(*rng.pick(&[1, 2, 3, 9, 10, 12, 15, 17, 18, 19, 23, 28, 34, 63, 64, 0, 65, 143, 265, -1, i32::MAX, i32::MIN])),
            _ => StatusOp::Terminate,
        };
        ops_push(&mut sp.ops, op);
    }
    // bound the total cost of back-off loops: long timeouts only when the child ends soon
    let mut budget: u64 = if weeks_ok { 57 * DAY } else if long_ok { 3 * 3_600 * 1_000_000_000 } else { 600 * 1_000_000_000 };
    if weeks_ok {
        // one wait of > 25 days against a child that never exits: 22+ million iterations
        sp.ops = vec![StatusOp::WaitTimeout(26 * DAY + 5_000_000), StatusOp::Poll, StatusOp::Kill, StatusOp::Wait];
        sp.child_life_ns = 400 * DAY;
        plan.programs[0] = vec![Op::Sleep { ns: 400 * DAY }, Op::Exit { code: 0 }];
        plan.knobs.step_cap = 400_000_000;
        plan.knobs.faults = Default::default();
    }
    // "no limit" spelled as the largest duration there is (it does not fit the clock): only against
    // a child that ends by itself soon
    if !weeks_ok && life <= 60_000_000_000 && rng.chance(1, 10) {
        if let Some(StatusOp::WaitTimeout(d)) = sp.ops.iter_mut().find(|o| matches!(o, StatusOp::WaitTimeout(_))) {
            *d = u64::MAX;
        }
    }
    for op in sp.ops.iter_mut() {
        if let StatusOp::WaitTimeout(d) = op {
            if life > 60_000_000_000 {
                // the child will not end during this call: the loop runs d/100ms times
                if *d > budget {
                    *d = budget;
                }
                budget = budget.saturating_sub(*d).max(1_000_000);
            }
        }
    }
    sp.detached = rng.chance(1, 6);
    // environment: foreign reaper and pid reuse
    if prop != "C11" && rng.chance(1, 3) {
        plan.knobs.faults.foreign_reap = true;
        plan.knobs.env_reaps = 1;
        if rng.chance(2, 3) {
            plan.knobs.faults.bystanders = true;
            plan.knobs.env_spawns = 1 + rng.below(4) as u32;
            plan.knobs.pid_span = 2 + rng.below(2) as i32;
        }
        plan.knobs.batch = "faulty".into();
    }
    if prop == "C11" && index % 3 == 2 {
        plan.knobs.batch = "faulty".into();
        if rng.chance(2, 3) {
            plan.knobs.faults.timer_late_ns = *rng.pick(&[50_000u64, 1_000_000]);
        }
        if rng.chance(1, 2) {
            plan.knobs.faults.stall_pm = *rng.pick(&[5u32, 30, 100]);
        }
    }
    sp.setpgid = rng.chance(1, 4);
    sp.other_thread = rng.chance(1, 6);
    // the parent's descriptor table is full at some point after the start: nothing the status and
    // signal calls do needs a descriptor
    if prop != "C11" && rng.chance(1, 12) {
        plan.knobs.faults.fdalloc = Some((2 + rng.below(4) as u32, libc::EMFILE));
        plan.knobs.batch = "faulty".into();
    }
    // a fatal signal from the parent takes a moment to take effect: the child is doomed but not a zombie yet
    if rng.chance(1, 5) {
        plan.knobs.faults.kill_lag_ns = *rng.pick(&[20_000u64, 2_000_000, 300_000_000]);
        plan.knobs.batch = "faulty".into();
    }
    // a signal that cannot be delivered for once (EPERM): the child is still the caller's to signal later
    if prop != "C11" && rng.chance(1, 8) {
        plan.knobs.faults.kill_fail = Some((1 + rng.below(2) as u32, libc::EPERM));
        plan.knobs.batch = "faulty".into();
    }
    // a signal handler of the application runs while the parent is blocked in wait()
    if prop != "C11" && rng.chance(1, 6) {
        plan.knobs.faults.eintr = Some((1 + rng.below(3) as u32, 1 + rng.below(3) as u32, *rng.pick(&[4u8, 4, 12])));
        plan.knobs.batch = "faulty".into();
    }
    // ... or while it naps between two status checks of wait_timeout (the nap must go on for
    // the time that is left, not start over)
    if prop == "C11" && rng.chance(1, 5) {
        plan.knobs.faults.eintr = Some((1 + rng.below(6) as u32, 1 + rng.below(40) as u32, 8));
        plan.knobs.batch = "faulty".into();
    }
    plan.body = Body::Status(sp);
}

fn ops_push(v: &mut Vec<StatusOp>, op: StatusOp) {
    v.push(op);
}

fn truth(cause: Option<ExitCause>) -> Option<ExitStatus> {
    match cause {
        Some(ExitCause::Code(c)) => Some(ExitStatus::Exited(c as u32 & 0xff)),
        Some(ExitCause::Signal(s)) => Some(ExitStatus::Signaled(s as u8)),
        None => None,
    }
}

struct St {
    pid: i32,
    observed: Option<ExitStatus>,
    observed_seq: u64,
    nontrivial: bool,
}

impl St {
    fn child<'a>(&self) -> Option<&'a Proc> {
        sim().k.child_by_spawn(0)
    }

    /// a query reported `st`
    fn report(&mut self, st: ExitStatus, how: &str) {
        let s = sim();
        let c = match self.child() {
            Some(c) => c,
            None => return,
        };
        match self.observed {
            None => {
                if c.alive() {
                    violate("status_while_running", format!("status_while_running/by={}", how), format!("{} reported {:?} while the child (pid {}) is still running", how, st, self.pid));
                }
                let foreign = c.reaped_by == Some(Ent::Env);
                let want = if foreign { Some(ExitStatus::Undetermined) } else { truth(c.exit_cause) };
                if !c.alive() && Some(st) != want {
                    if foreign {
                        violate("echild_not_undetermined", format!("echild_not_undetermined/got={}", class(st)), format!("{}: the child was reaped by foreign code, expected Undetermined, got {:?}", how, st));
                    } else {
                        violate("status_wrong", format!("status_wrong/by={}/want={}/got={}", how, want.map(class).unwrap_or("none"), class(st)), format!("{} reported {:?}, the child ended with {:?}", how, st, c.exit_cause));
                    }
                }
                if foreign {
                    s.k.probe("undetermined_after_foreign_reap");
                }
                self.observed = Some(st);
                self.observed_seq = s.k.seq;
            }
            Some(prev) => {
                if prev != st {
                    violate("status_changed", format!("status_changed/by={}", how), format!("{} reported {:?} after {:?} had been reported", how, st, prev));
                }
            }
        }
    }

    fn lib_events(&self, from_seq: u64) -> Vec<Event> {
        let t = me();
        sim().k.log.iter().rev().take_while(|e| e.seq > from_seq).filter(|e| e.who == Ent::Par(t) && !matches!(e.call, Call::Mark)).cloned().collect::<Vec<_>>().into_iter().rev().collect()
    }

    /// after a final status no further OS call about the child
    fn check_quiet(&self, from_seq: u64, how: &str, known_before: bool) {
        if !known_before {
            return;
        }
        let evs = self.lib_events(from_seq);
        let bad: Vec<&Event> = evs.iter().filter(|e| matches!(e.call, Call::Waitpid | Call::Kill)).collect();
        if let Some(e) = bad.first() {
            violate("syscall_after_final", format!("syscall_after_final/by={}/call={:?}", how, e.call), format!("{} issued {:?}({}, {}) although the final status was already known", how, e.call, e.a[0], e.a[1]));
        }
    }
}

fn class(s: ExitStatus) -> &'static str {
    match s {
        ExitStatus::Exited(_) => "exited",
        ExitStatus::Signaled(_) => "signaled",
        ExitStatus::Other(_) => "other",
        ExitStatus::Undetermined => "undetermined",
    }
}

pub fn run(plan: &Plan, sp: &StatusPlan) -> FamOut {
    let _cost = plan.knobs.cost_ns;
    let cfg = PopenConfig { detached: sp.detached, setpgid: sp.setpgid, ..Default::default() };
    let exe = format!("/bin/{}", sp.prog_name.as_deref().unwrap_or("child"));
    let r = lib("Popen::create", || Popen::create(&[&exe], cfg));
    let p = match r {
        Ok(Ok(p)) => p,
        Ok(Err(e)) => {
            violate("spawn_failed", format!("spawn_failed/{:?}", e), format!("Popen::create failed: {:?}", e));
            return FamOut { nontrivial: false };
        }
        Err(pm) => {
            violate("panic", "panic/in=Popen::create".into(), pm);
            return FamOut { nontrivial: false };
        }
    };
    if sp.other_thread {
        let (plan2, sp2) = (plan.clone(), sp.clone());
        let out = std::sync::Arc::new(std::sync::Mutex::new(None));
        let out2 = out.clone();
        let (u, h) = crate::simrt::spawn(move || {
            let r = run_ops(&plan2, &sp2, p);
            *out2.lock().unwrap() = Some(r);
        });
        crate::simrt::join(u);
        crate::runner::stash_handles(vec![h]);
        sim().k.probe("status_queried_from_another_thread");
        let r = out.lock().unwrap().take();
        return r.unwrap_or(FamOut { nontrivial: false });
    }
    run_ops(plan, sp, p)
}

fn run_ops(plan: &Plan, sp: &StatusPlan, mut p: Popen) -> FamOut {
    let cost = plan.knobs.cost_ns;
    let pid = sim().k.child_by_spawn(0).map(|c| c.pid).unwrap_or(-1);
    let mut st = St { pid, observed: None, observed_seq: 0, nontrivial: false };
    for (i, op) in sp.ops.iter().enumerate() {
        if sim().poisoned.is_some() {
            break;
        }
        let b = seq();
        let t_call = now();
        let known_before = st.observed.is_some();
        let (stall0, late0) = (sim().stalled_ns, sim().late_ns);
        if matches!(op, StatusOp::Wait | StatusOp::WaitTimeout(_)) {
            // a child the workload itself stopped (SIGSTOP) is continued before blocking on it
            let pids: Vec<i32> = sim().k.procs.values().filter(|c| c.stopped).map(|c| c.pid).collect();
            for c in pids {
                sim().k.proc_mut(c).stopped = false;
            }
        }
        match op {
            StatusOp::Poll => {
                let r = lib("Popen::poll", || p.poll());
                match r {
                    Err(pm) => violate("panic", "panic/in=poll".into(), pm),
                    Ok(res) => {
                        let evs = st.lib_events(b);
                        let blocked = evs.iter().any(|e| e.call == Call::Blocked || (e.call == Call::Sleep && e.a[0] > 0));
                        if blocked || evs.len() > 8 {
                            violate("poll_blocked", format!("poll_blocked/blocked={}/calls={}", blocked, evs.len().min(9)), format!("poll() issued {} calls, blocking/sleeping: {}", evs.len(), blocked));
                        }
                        if let Some(s) = res {
                            st.report(s, "poll");
                        } else if known_before {
                            violate("status_changed", "status_changed/by=poll_none".into(), "poll() returned None after a final status had been reported".into());
                        }
                        st.check_quiet(b, "poll", known_before);
                    }
                }
            }
            StatusOp::Wait => {
                let r = lib("Popen::wait", || p.wait());
                match r {
                    Err(pm) => violate("panic", "panic/in=wait".into(), pm),
                    Ok(Ok(s)) => {
                        st.report(s, "wait");
                        st.check_quiet(b, "wait", known_before);
                    }
                    Ok(Err(e)) if is_eintr(&e) && eintr_fired() => {
                        // an interrupted wait may fail (no information); the truth must still
                        // come out of the later queries
                        sim().k.probe("call_failed_with_eintr");
                    }
                    Ok(Err(e)) => {
                        if sim().poisoned.is_none() {
                            violate("echild_not_undetermined", "echild_not_undetermined/got=err".into(), format!("wait() failed: {:?}", e));
                        }
                    }
                }
            }
            StatusOp::WaitTimeout(d) => {
                let d = *d;
                let r = lib("Popen::wait_timeout", || p.wait_timeout(if d == u64::MAX { Duration::MAX } else { Duration::from_nanos(d) }));
                let t_ret = now();
                let evs = st.lib_events(b);
                let (dstall, dlate) = (sim().stalled_ns - stall0, sim().late_ns - late0);
                let slack = dstall + dlate + 64 * cost;
                match r {
                    Err(pm) => violate("panic", "panic/in=wait_timeout".into(), pm),
                    Ok(Err(e)) => {
                        if sim().poisoned.is_none() {
                            violate("echild_not_undetermined", "echild_not_undetermined/got=err".into(), format!("wait_timeout() failed: {:?}", e));
                        }
                    }
                    Ok(Ok(res)) => {
                        if known_before {
                            if !evs.is_empty() {
                                violate("wt_syscalls_when_known", format!("wt_syscalls_when_known/first={:?}", evs[0].call), format!("wait_timeout issued {} calls although the status was already known", evs.len()));
                            }
                            if res != st.observed {
                                violate("status_changed", "status_changed/by=wait_timeout".into(), format!("wait_timeout returned {:?} after {:?}", res, st.observed));
                            }
                        } else {
                            let t0 = evs.iter().find(|e| e.call == Call::ClockGet).map(|e| e.ret as u64).unwrap_or(t_call);
                            match res {
                                None => {
                                    if t_ret < t_call.saturating_add(d) {
                                        violate("wt_early", format!("wt_early/dur_class={}", dur_class(d)), format!("op#{}: wait_timeout({} ns) called at {} returned 'still running' at {}, {} ns early", i, d, t_call, t_ret, t_call.saturating_add(d) - t_ret));
                                    }
                                    let dl = t0.saturating_add(d);
                                    if t_ret > dl.saturating_add(10_000_000 + slack) {
                                        violate("wt_late", format!("wt_late/dur_class={}", dur_class(d)), format!("op#{}: wait_timeout({} ns) returned 'still running' {} ns after the deadline (allowed 10 ms + {} ns injected)", i, d, t_ret - dl, slack));
                                    }
                                    // the child must really not have been a zombie for long
                                    if let Some(c) = st.child() {
                                        if let (Some(ex), None) = (c.exit_at, c.reaped_by) {
                                            // (also when it had ended before the call: a dead child's status is never "still running" for long)
                                            if t_ret > ex + 100_000_000 + slack {
                                                violate("wt_exit_late", "wt_exit_late/returned=none".into(), format!("op#{}: the child exited at {}, wait_timeout still said 'running' at {}", i, ex, t_ret));
                                            }
                                        }
                                    }
                                    if d > 0 {
                                        st.nontrivial = true;
                                    }
                                }
                                Some(s) => {
                                    st.report(s, "wait_timeout");
                                    if let Some(c) = st.child() {
                                        if let Some(ex) = c.exit_at {
                                            let base = ex.max(t_call);
                                            if c.reaped_by != Some(Ent::Env) && t_ret > base + 100_000_000 + slack {
                                                violate("wt_exit_late", format!("wt_exit_late/dur_class={}", dur_class(d)), format!("op#{}: the child exited at {}, wait_timeout reported it at {} ({} ns later; allowed 100 ms + {} ns injected)", i, ex, t_ret, t_ret - base, slack));
                                            }
                                            if ex > t_call {
                                                st.nontrivial = true;
                                                sim().k.probe("child_exit_inside_wait_timeout");
                                            }
                                        }
                                    }
                                }
                            }
                            // bounded number of status checks: sleep in between
                            let dl = t0.saturating_add(d);
                            let mut last_wait: Option<&Event> = None;
                            let mut slept: u64 = 0;
                            for e in evs.iter() {
                                if e.call == Call::Sleep {
                                    slept += e.ret.max(0) as u64;
                                }
                                if e.call == Call::Waitpid {
                                    if let Some(w) = last_wait {
                                        let remaining = dl.saturating_sub(w.t);
                                        // time that passed between the two checks outside of sleeping (call costs, stalls)
                                        let non_sleep = (e.t - w.t).saturating_sub(slept);
                                        let need = remaining.saturating_sub(non_sleep).min(100_000);
                                        if slept < need {
                                            violate("spin", "spin/in=Popen::wait_timeout/call=Waitpid".into(), format!("op#{}: two status checks {} ns apart with only {} ns of sleep in between ({} ns were left)", i, e.t - w.t, slept, remaining));
                                            break;
                                        }
                                    }
                                    last_wait = Some(e);
                                    slept = 0;
                                }
                            }
                        }
                    }
                }
            }
            StatusOp::Pid => {
                let r = lib("Popen::pid", || p.pid());
                if let Ok(v) = r {
                    match (st.observed, v) {
                        (None, Some(x)) if x as i32 == pid => {}
                        (Some(_), None) => {}
                        (o, v) => violate("status_changed", format!("status_changed/by=pid/observed={}", o.is_some()), format!("pid() returned {:?} (child pid {}, final status known: {})", v, pid, o.is_some())),
                    }
                    st.check_quiet(b, "pid", true);
                }
            }
            StatusOp::ExitStatus => {
                let r = lib("Popen::exit_status", || p.exit_status());
                if let Ok(v) = r {
                    if v != st.observed {
                        violate("status_changed", "status_changed/by=exit_status".into(), format!("exit_status() returned {:?}, queries had reported {:?}", v, st.observed));
                    }
                    st.check_quiet(b, "exit_status", true);
                }
            }
            StatusOp::Terminate | StatusOp::Kill | StatusOp::SendSignal(_) => {
                let (want_sig, name) = match op {
                    StatusOp::Terminate => (SIGTERM, "terminate"),
                    StatusOp::Kill => (SIGKILL, "kill"),
                    StatusOp::SendSignal(s) => (*s, "send_signal"),
                    _ => unreachable!(),
                };
                let k0 = sim().k.kill_log.len();
                let r = match op {
                    StatusOp::Terminate => lib("Popen::terminate", || p.terminate()),
                    StatusOp::Kill => lib("Popen::kill", || p.kill()),
                    _ => lib("Popen::send_signal", || p.send_signal(want_sig)),
                };
                let kills: Vec<KillRec> = sim().k.kill_log[k0..].to_vec();
                match r {
                    Err(pm) => violate("panic", format!("panic/in={}", name), pm),
                    Ok(res) => {
                        // the kernel's truth: is the very child this Popen started still there, un-reaped and running?
                        let child_alive = st.child().map(|c| c.pid == pid && c.reaped_by.is_none() && c.exit_at.is_none()).unwrap_or(false);
                        if known_before && child_alive {
                            // whatever the library believes it has observed: the child has neither ended
                            // nor been reaped, so the signal must reach it
                            let ok = kills.len() == 1 && kills[0].pid == pid && kills[0].sig == want_sig;
                            if !ok {
                                violate("signal_wrong", format!("signal_wrong/by={}/not_sent_to_live_child", name), format!("{}(): the child (pid {}) is alive and un-reaped, yet the calls made were {:?}", name, pid, kills.iter().map(|k| (k.pid, k.sig)).collect::<Vec<_>>()));
                            }
                        } else if known_before {
                            if !kills.is_empty() || res.is_err() {
                                let tgt = kills.first().map(|k| format!("{:?}", k.target)).unwrap_or_default();
                                violate("signal_after_observed", format!("signal_after_observed/by={}/kills={}/target={}", name, kills.len().min(2), tgt.split('(').next().unwrap_or("")), format!("{}() after the final status was known: {} kill call(s) {:?}, result {:?}", name, kills.len(), kills.iter().map(|k| (k.pid, k.sig)).collect::<Vec<_>>(), res));
                            }
                        } else if !kills.is_empty() && st.child().map(|c| c.pid == pid && matches!(c.reaped_by, Some(Ent::Par(_))) && c.reaped_seq <= b).unwrap_or(false) {
                            // no status was ever reported, but a query of this very Popen has reaped the
                            // child: its termination has been observed by the library, the pid is free
                            violate("signal_after_observed", format!("signal_after_observed/by={}/reaped_by_an_earlier_query", name), format!("{}(): an earlier query of this Popen reaped child {} (without reporting a status); {} kill call(s) {:?} were made afterwards", name, pid, kills.len(), kills.iter().map(|k| (k.pid, k.sig)).collect::<Vec<_>>()));
                        } else {
                            let ok = kills.len() == 1 && kills[0].pid == pid && kills[0].sig == want_sig;
                            if !ok {
                                violate("signal_wrong", format!("signal_wrong/by={}/kills={}", name, kills.len().min(3)), format!("{}(): expected exactly kill({}, {}), saw {:?}", name, pid, want_sig, kills.iter().map(|k| (k.pid, k.sig)).collect::<Vec<_>>()));
                            } else {
                                match kills[0].target {
                                    KillTarget::LiveChild(_) | KillTarget::ZombieChild(_) => {
                                        st.nontrivial = true;
                                    }
                                    KillTarget::Bystander => sim().k.probe("signal_hit_recycled_pid_before_observation"),
                                    _ => {}
                                }
                                // kill() succeeded => the call must succeed
                                if kills[0].ret == 0 && res.is_err() {
                                    violate("signal_wrong", format!("signal_wrong/by={}/err_despite_delivery", name), format!("{}() failed although kill() succeeded: {:?}", name, res));
                                }
                            }
                        }
                    }
                }
            }
            StatusOp::Detach => {
                let _ = lib("Popen::detach", || p.detach());
                st.check_quiet(b, "detach", true);
            }
            StatusOp::Advance(ns) => advance(*ns),
            StatusOp::Yield(n) => yield_steps(*n),
        }
    }
    // after a final status: nothing about that pid any more (over the whole history)
    if st.observed.is_some() {
        let s = sim();
        if let Some(k) = s.k.kill_log.iter().find(|k| k.seq > st.observed_seq && k.in_lib) {
            violate("signal_after_observed", format!("signal_after_observed/late/target={:?}", k.target).split('(').next().unwrap_or("").to_string(), format!("kill({}, {}) issued after the final status had been observed", k.pid, k.sig));
        }
    }
    // make sure the drop does not wait for 400 days of virtual back-off
    kill_all_children();
    let _ = lib_drop("drop(Popen)", p);
    if sim().k.fcount.fired.contains_key("foreign_reap") {
        st.nontrivial = true;
    }
    FamOut { nontrivial: st.nontrivial }
}

fn dur_class(d: u64) -> &'static str {
    if d == 0 {
        "zero"
    } else if d < 1_000_000 {
        "sub_ms"
    } else if d < 1_000_000_000 {
        "ms"
    } else if d < 3_600_000_000_000 {
        "s"
    } else if d < 25 * DAY {
        "hours"
    } else if d == u64::MAX {
        "unlimited"
    } else {
        "weeks"
    }
}

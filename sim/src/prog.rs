//! Child programs: scripts interpreted by the simulated kernel, one system
//! call per scheduler step.  Scripts are closed: they block only on things the
//! parent is obliged to provide.

use crate::kernel::*;
use crate::rng::stream_byte;
use serde::{Deserialize, Serialize};

#[derive(Clone, Debug, PartialEq, Eq, Serialize, Deserialize)]
pub enum Op {
    /// one read call of up to n bytes
    Read { fd: i32, n: usize },
    /// read until EOF
    ReadAll { fd: i32, chunk: usize },
    /// read until `total` bytes arrived or EOF
    ReadN { fd: i32, total: usize, chunk: usize },
    /// write `len` bytes of stream `stream` in calls of `chunk` bytes
    Write { fd: i32, stream: u32, len: usize, chunk: usize },
    Close { fd: i32 },
    Sleep { ns: u64 },
    Exit { code: i32 },
    Raise { sig: i32 },
    SigAction { sig: i32, disp: Disp },
    /// copy inp to out until EOF
    Cat { inp: i32, out: i32, chunk: usize },
    /// for every chunk read from inp write k_out x chunk to out and k_err x chunk to err (generated streams)
    Amplify { inp: i32, out: i32, err: i32, chunk: usize, k_out: usize, k_err: usize, so: u32, se: u32 },
    /// pipeline stage: bytes x -> 3x+tag, per chunk; every `line_every` chunks a numbered line on err
    Filter { inp: i32, out: i32, err: i32, chunk: usize, tag: u8, line_every: usize, id: u8 },
    /// like `head -c max` through a filter: passes on the first `max` bytes (transformed), then goes on
    /// to the next op without reading any further
    Head { inp: i32, out: i32, chunk: usize, tag: u8, max: usize },
    /// write until the reader goes away (gives up after 3 EPIPEs) or `max` bytes
    Flood { fd: i32, stream: u32, chunk: usize, max: usize },
    /// `pieces` x (write piece_len, sleep gap)
    Trickle { fd: i32, stream: u32, pieces: usize, piece_len: usize, gap_ns: u64 },
    /// fork a descendant that inherits all descriptors and runs `prog`
    Daemon { prog: Vec<Op> },
}

#[derive(Clone, Debug, Default)]
pub struct Cursor {
    pub pc: usize,
    /// bytes done within the current op
    pub done: usize,
    /// pending output buffers (Cat/Filter/Amplify): (fd, data, pos)
    pub out: Vec<(i32, Vec<u8>, usize)>,
    pub phase: u32,
    pub count: usize,
    /// absolute offsets of generated streams (stream id -> next offset)
    pub soff: std::collections::BTreeMap<u32, u64>,
    pub eof: bool,
}

#[derive(Clone, Copy, Debug, PartialEq, Eq)]
pub enum Next {
    /// next step cannot block
    Free,
    Read(i32),
    Write(i32, usize),
    Done,
}

fn gen(cur: &mut Cursor, stream: u32, n: usize) -> Vec<u8> {
    let off = cur.soff.entry(stream).or_insert(0);
    let v: Vec<u8> = (0..n as u64).map(|i| stream_byte(stream, *off + i)).collect();
    *off += n as u64;
    v
}

pub fn filter_byte(x: u8, tag: u8) -> u8 {
    x.wrapping_mul(3).wrapping_add(tag)
}

impl Kernel {
    /// What would the next step of `pid` do? (pure)
    pub fn next_call(&self, pid: i32) -> Next {
        let p = self.proc(pid);
        if !p.cur.out.is_empty() {
            let (fd, ref data, pos) = p.cur.out[0];
            return Next::Write(fd, data.len() - pos);
        }
        if p.cur.pc >= p.prog.len() {
            return Next::Free; // implicit exit
        }
        match &p.prog[p.cur.pc] {
            Op::Read { fd, .. } | Op::ReadAll { fd, .. } | Op::ReadN { fd, .. } => Next::Read(*fd),
            Op::Write { fd, len, chunk, .. } => Next::Write(*fd, (*len - p.cur.done).min((*chunk).max(1))),
            Op::Cat { inp, .. } | Op::Amplify { inp, .. } | Op::Filter { inp, .. } => Next::Read(*inp),
            Op::Head { inp, max, .. } => {
                if p.cur.done >= *max {
                    Next::Free
                } else {
                    Next::Read(*inp)
                }
            }
            Op::Flood { fd, chunk, max, .. } => Next::Write(*fd, (*max - p.cur.done).min((*chunk).max(1))),
            Op::Trickle { fd, piece_len, .. } => {
                if p.cur.phase == 0 {
                    Next::Write(*fd, *piece_len)
                } else {
                    Next::Free
                }
            }
            _ => Next::Free,
        }
    }

    pub fn proc_enabled(&self, pid: i32) -> bool {
        let p = self.proc(pid);
        if p.stopped {
            return false;
        }
        match p.state {
            PState::PreExec => p.preexec_wake.map(|u| self.now >= u).unwrap_or(true),
            PState::Sleeping { until } => self.now >= until,
            PState::Zombie { .. } | PState::Reaped => false,
            PState::Running => match self.next_call(pid) {
                Next::Free | Next::Done => true,
                Next::Read(fd) => match self.desc_of(pid, fd) {
                    None => true,
                    Some(d) => self.readable(d),
                },
                Next::Write(fd, n) => match self.desc_of(pid, fd) {
                    None => true,
                    Some(d) => self.writable(d, n),
                },
            },
        }
    }

    /// earliest wake-up time of a sleeping process, if any
    pub fn next_proc_timer(&self) -> Option<u64> {
        self.procs
            .values()
            .filter(|p| !p.stopped)
            .filter_map(|p| match p.state {
                PState::Sleeping { until } => Some(until),
                PState::PreExec => p.preexec_wake,
                _ => None,
            })
            .min()
    }

    /// A write by a simulated process: handles SIGPIPE/EPIPE. Returns
    /// Some(n) accepted, None when the process died or must give up.
    fn proc_write(&mut self, pid: i32, fd: i32, data: &[u8]) -> Option<usize> {
        match self.try_write(pid, fd, data, None) {
            Ok(n) => {
                let p = self.proc_mut(pid);
                *p.tx_bytes.entry(fd).or_insert(0) += n as u64;
                if fd == 2 {
                    let v = p.tx_data.entry(fd).or_default();
                    if v.len() < (1 << 20) {
                        v.extend_from_slice(&data[..n]);
                    }
                }
                Some(n)
            }
            Err(Blk::Block) => Some(0),
            Err(Blk::Err(e)) => {
                if e == libc::EPIPE {
                    let (disp, blocked) = {
                        let p = self.proc(pid);
                        (p.disp[SIGPIPE as usize], p.sigmask & sigbit(SIGPIPE) != 0)
                    };
                    if disp == Disp::Default && !blocked {
                        self.exit_proc(pid, ExitCause::Signal(SIGPIPE));
                        return None;
                    }
                    self.proc_mut(pid).epipes += 1;
                    self.probe("child_survived_epipe");
                } else {
                    // any other write error (EBADF on a stream the parent runs without, ...):
                    // ordinary programs report it and give up
                    self.exit_proc(pid, ExitCause::Code(1));
                }
                None
            }
        }
    }

    /// Perform one step of process `pid` (must be enabled).
    pub fn step_proc(&mut self, pid: i32) {
        self.proc_mut(pid).steps += 1;
        if let PState::Sleeping { .. } = self.proc(pid).state {
            self.proc_mut(pid).state = PState::Running;
            self.touch();
            return;
        }
        // pending output first
        if !self.proc(pid).cur.out.is_empty() {
            let (fd, data, pos) = self.proc_mut(pid).cur.out.remove(0);
            match self.proc_write(pid, fd, &data[pos..]) {
                Some(n) => {
                    if pos + n < data.len() {
                        self.proc_mut(pid).cur.out.insert(0, (fd, data, pos + n));
                    }
                }
                None => {
                    if self.is_alive(pid) {
                        // EPIPE survived: ordinary programs give up
                        self.exit_proc(pid, ExitCause::Code(1));
                    }
                }
            }
            return;
        }
        if self.proc(pid).cur.pc >= self.proc(pid).prog.len() {
            self.exit_proc(pid, ExitCause::Code(0));
            return;
        }
        let op = self.proc(pid).prog[self.proc(pid).cur.pc].clone();
        match op {
            Op::Read { fd, n } => {
                self.proc_read(pid, fd, n);
                self.advance(pid);
            }
            Op::ReadAll { fd, chunk } => {
                let (n, eof) = self.proc_read(pid, fd, chunk.max(1));
                let _ = n;
                if eof {
                    self.advance(pid);
                }
            }
            Op::ReadN { fd, total, chunk } => {
                let want = (total - self.proc(pid).cur.done).min(chunk.max(1));
                if want == 0 {
                    self.advance(pid);
                    return;
                }
                let (n, eof) = self.proc_read(pid, fd, want);
                self.proc_mut(pid).cur.done += n;
                if eof || self.proc(pid).cur.done >= total {
                    self.advance(pid);
                }
            }
            Op::Write { fd, stream, len, chunk } => {
                let want = (len - self.proc(pid).cur.done).min(chunk.max(1));
                if want == 0 {
                    self.advance(pid);
                    return;
                }
                // generate without consuming until accepted
                let off = *self.proc(pid).cur.soff.get(&stream).unwrap_or(&0);
                let data: Vec<u8> = (0..want as u64).map(|i| stream_byte(stream, off + i)).collect();
                match self.proc_write(pid, fd, &data) {
                    Some(n) => {
                        let c = &mut self.proc_mut(pid).cur;
                        *c.soff.entry(stream).or_insert(0) += n as u64;
                        c.done += n;
                        if c.done >= len {
                            self.advance(pid);
                        }
                    }
                    None => {
                        if self.is_alive(pid) {
                            self.exit_proc(pid, ExitCause::Code(1));
                        }
                    }
                }
            }
            Op::Close { fd } => {
                let _ = self.k_close(pid, fd);
                self.advance(pid);
            }
            Op::Sleep { ns } => {
                let until = self.now.saturating_add(ns);
                self.proc_mut(pid).state = PState::Sleeping { until };
                self.advance(pid);
            }
            Op::Exit { code } => self.exit_proc(pid, ExitCause::Code(code)),
            Op::Raise { sig } => {
                self.advance(pid);
                self.deliver(pid, sig, Ent::Proc(pid));
            }
            Op::SigAction { sig, disp } => {
                if (1..=64).contains(&sig) && sig != SIGKILL && sig != SIGSTOP {
                    self.proc_mut(pid).disp[sig as usize] = disp;
                }
                self.advance(pid);
            }
            Op::Cat { inp, out, chunk } => {
                let mut buf = vec![0u8; self.avail_hint(pid, inp, chunk.max(1))];
                match self.try_read(pid, inp, &mut buf, None) {
                    Ok(0) => {
                        self.note_eof(pid, inp);
                        self.advance(pid);
                    }
                    Ok(n) => {
                        buf.truncate(n);
                        self.rx_push(pid, inp, &buf);
                        self.proc_mut(pid).cur.out.push((out, buf, 0));
                    }
                    Err(Blk::Block) => {}
                    Err(Blk::Err(_)) => self.advance(pid),
                }
            }
            Op::Amplify { inp, out, err, chunk, k_out, k_err, so, se } => {
                let mut buf = vec![0u8; self.avail_hint(pid, inp, chunk.max(1))];
                match self.try_read(pid, inp, &mut buf, None) {
                    Ok(0) => {
                        self.note_eof(pid, inp);
                        self.advance(pid);
                    }
                    Ok(n) => {
                        buf.truncate(n);
                        self.rx_push(pid, inp, &buf);
                        let c = &mut self.proc_mut(pid).cur;
                        if k_out > 0 {
                            let d = gen(c, so, n * k_out);
                            c.out.push((out, d, 0));
                        }
                        if k_err > 0 {
                            let d = gen(c, se, n * k_err);
                            c.out.push((err, d, 0));
                        }
                    }
                    Err(Blk::Block) => {}
                    Err(Blk::Err(_)) => self.advance(pid),
                }
            }
            Op::Filter { inp, out, err, chunk, tag, line_every, id } => {
                let mut buf = vec![0u8; self.avail_hint(pid, inp, chunk.max(1))];
                match self.try_read(pid, inp, &mut buf, None) {
                    Ok(0) => {
                        self.note_eof(pid, inp);
                        self.advance(pid);
                    }
                    Ok(n) => {
                        buf.truncate(n);
                        self.rx_push(pid, inp, &buf);
                        for b in buf.iter_mut() {
                            *b = filter_byte(*b, tag);
                        }
                        let c = &mut self.proc_mut(pid).cur;
                        c.out.push((out, buf, 0));
                        c.count += 1;
                        if line_every > 0 && c.count % line_every == 0 {
                            let line = format!("stage{}:{}\n", id, c.count / line_every);
                            c.out.push((err, line.into_bytes(), 0));
                        }
                    }
                    Err(Blk::Block) => {}
                    Err(Blk::Err(_)) => self.advance(pid),
                }
            }
            Op::Head { inp, out, chunk, tag, max } => {
                let done = self.proc(pid).cur.done;
                if done >= max {
                    self.advance(pid);
                    return;
                }
                let want = (max - done).min(self.avail_hint(pid, inp, chunk.max(1))).max(1);
                let mut buf = vec![0u8; want];
                match self.try_read(pid, inp, &mut buf, None) {
                    Ok(0) => {
                        self.note_eof(pid, inp);
                        self.advance(pid);
                    }
                    Ok(n) => {
                        buf.truncate(n);
                        self.rx_push(pid, inp, &buf);
                        for b in buf.iter_mut() {
                            *b = filter_byte(*b, tag);
                        }
                        let c = &mut self.proc_mut(pid).cur;
                        c.out.push((out, buf, 0));
                        c.done += n;
                    }
                    Err(Blk::Block) => {}
                    Err(Blk::Err(_)) => self.advance(pid),
                }
            }
            Op::Flood { fd, stream, chunk, max } => {
                let want = (max - self.proc(pid).cur.done).min(chunk.max(1));
                if want == 0 {
                    self.advance(pid);
                    return;
                }
                let off = *self.proc(pid).cur.soff.get(&stream).unwrap_or(&0);
                let data: Vec<u8> = (0..want as u64).map(|i| stream_byte(stream, off + i)).collect();
                match self.proc_write(pid, fd, &data) {
                    Some(n) => {
                        let c = &mut self.proc_mut(pid).cur;
                        *c.soff.entry(stream).or_insert(0) += n as u64;
                        c.done += n;
                        if c.done >= max {
                            self.advance(pid);
                        }
                    }
                    None => {
                        if self.is_alive(pid) && self.proc(pid).epipes >= 3 {
                            self.exit_proc(pid, ExitCause::Code(1));
                        }
                    }
                }
            }
            Op::Trickle { fd, stream, pieces, piece_len, gap_ns } => {
                if self.proc(pid).cur.phase == 0 {
                    let off = *self.proc(pid).cur.soff.get(&stream).unwrap_or(&0);
                    let data: Vec<u8> = (0..piece_len as u64).map(|i| stream_byte(stream, off + i)).collect();
                    match self.proc_write(pid, fd, &data) {
                        Some(n) => {
                            if n == 0 && piece_len > 0 {
                                return;
                            }
                            let c = &mut self.proc_mut(pid).cur;
                            *c.soff.entry(stream).or_insert(0) += n as u64;
                            c.phase = 1;
                        }
                        None => {
                            if self.is_alive(pid) {
                                self.exit_proc(pid, ExitCause::Code(1));
                            }
                        }
                    }
                } else {
                    let until = self.now.saturating_add(gap_ns);
                    let c = &mut self.proc_mut(pid).cur;
                    c.phase = 0;
                    c.count += 1;
                    let fin = c.count >= pieces;
                    self.proc_mut(pid).state = PState::Sleeping { until };
                    if fin {
                        self.advance(pid);
                    }
                }
            }
            Op::Daemon { prog } => {
                let mask = self.proc(pid).sigmask;
                let c = self.fork_proc(pid, mask, PKind::Descendant);
                let cp = self.proc_mut(c);
                cp.prog = prog;
                cp.state = PState::Running;
                self.advance(pid);
            }
        }
    }

    pub fn is_alive(&self, pid: i32) -> bool {
        self.procs.get(&pid).map(|p| p.alive()).unwrap_or(false)
    }

    fn advance(&mut self, pid: i32) {
        if let Some(p) = self.procs.get_mut(&pid) {
            p.cur.pc += 1;
            p.cur.done = 0;
            p.cur.phase = 0;
            p.cur.count = 0;
        }
        self.touch();
    }

    fn rx_push(&mut self, pid: i32, fd: i32, data: &[u8]) {
        self.proc_mut(pid).rx.entry(fd).or_default().data.extend_from_slice(data);
    }

    fn note_eof(&mut self, pid: i32, fd: i32) {
        let now = self.now;
        let seq = self.seq;
        let r = self.proc_mut(pid).rx.entry(fd).or_default();
        if r.eof_at.is_none() {
            r.eof_at = Some(now);
            r.eof_seq = Some(seq);
        }
    }

    /// bytes a read of `fd` could return right now (bounds buffer allocation; at least 1)
    fn avail_hint(&self, pid: i32, fd: i32, want: usize) -> usize {
        let a = match self.desc_of(pid, fd).map(|d| self.descs[d].kind) {
            Some(DescKind::PipeR(p)) => self.pipes[p].avail(),
            Some(DescKind::File(f)) => self.files[f].data.len(),
            _ => 0,
        };
        want.min(a.max(1))
    }

    /// returns (bytes, eof_or_error)
    fn proc_read(&mut self, pid: i32, fd: i32, n: usize) -> (usize, bool) {
        let n = self.avail_hint(pid, fd, n);
        let mut buf = vec![0u8; n];
        match self.try_read(pid, fd, &mut buf, None) {
            Ok(0) => {
                self.note_eof(pid, fd);
                (0, true)
            }
            Ok(k) => {
                self.rx_push(pid, fd, &buf[..k]);
                (k, false)
            }
            Err(Blk::Block) => (0, false),
            Err(Blk::Err(_)) => (0, true),
        }
    }
}

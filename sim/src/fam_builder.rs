//! Family `builder`: Exec builder calls compose like edits on a plain
//! command description (C16). Model-based history checking riding on the
//! exec-boundary observation; no schedule or fault dimension.

use crate::api::*;
use crate::kernel::*;
use crate::plan::*;
use crate::prog::Op;
use crate::rng::Rng;
use crate::runner::FamOut;
use crate::sim::sim;
use serde::{Deserialize, Serialize};
use std::collections::BTreeMap;
use std::ffi::OsString;
use std::os::unix::ffi::OsStringExt;
use subprocess::{Exec, NullFile, Redirection};

#[derive(Serialize, Deserialize, Clone, Copy, Debug, PartialEq, Eq)]
pub enum RKind {
    None,
    Pipe,
    Merge,
    File,
    Null,
    Data,
}

#[derive(Serialize, Deserialize, Clone, Debug, PartialEq)]
pub enum BCall {
    Arg(Vec<u8>),
    Args(Vec<Vec<u8>>),
    Env(Vec<u8>, Vec<u8>),
    EnvExtend(Vec<(Vec<u8>, Vec<u8>)>),
    EnvRemove(Vec<u8>),
    EnvClear,
    Cwd(Vec<u8>),
    Stdin(RKind),
    Stdout(RKind),
    Stderr(RKind),
    Detached,
    /// fork the description: the clone keeps the state reached so far
    Clone,
    /// not a builder call: the program changes its own environment (set / remove) between two
    /// builder calls, or between building the command and running it
    ParentSetenv(Vec<u8>, Option<Vec<u8>>),
}

#[derive(Serialize, Deserialize, Clone, Copy, Debug, PartialEq, Eq)]
pub enum BTerm {
    Popen,
    Join,
    Capture,
    Communicate,
    StreamStdout,
    StreamStderr,
    StreamStdin,
}

#[derive(Serialize, Deserialize, Clone, Debug)]
pub struct BuilderPlan {
    pub shell: Option<Vec<u8>>,
    pub calls: Vec<BCall>,
    pub term: BTerm,
    /// calls applied to the clone only, after the Clone point
    pub clone_calls: Vec<BCall>,
}

impl Default for BuilderPlan {
    fn default() -> Self {
        BuilderPlan { shell: None, calls: vec![], term: BTerm::Popen, clone_calls: vec![] }
    }
}

fn os(b: &[u8]) -> OsString {
    OsString::from_vec(b.to_vec())
}

fn gen_val(rng: &mut Rng) -> Vec<u8> {
    let n = rng.below(12) as usize;
    (0..n).map(|_| *rng.pick(b"abcXYZ 0189=:/'\"$\\\xc3\xa9\xff-_")).collect()
}

fn gen_key(rng: &mut Rng) -> Vec<u8> {
    rng.pick(&[&b"PATH"[..], b"HOME", b"LANG", b"K1", b"K2", b"K3", b"k1", b"home", b"Path", b"LONGER_KEY_NAME", b"\xc3\xa9"]).to_vec()
}

fn gen_call(rng: &mut Rng) -> BCall {
    let rk_in = |rng: &mut Rng| *rng.pick(&[RKind::None, RKind::Pipe, RKind::File, RKind::Null, RKind::Data, RKind::Pipe]);
    let rk_out = |rng: &mut Rng| *rng.pick(&[RKind::None, RKind::Pipe, RKind::File, RKind::Null, RKind::Merge, RKind::Pipe]);
    match rng.below(20) {
        0 | 1 | 2 => BCall::Arg(gen_val(rng)),
        3 => BCall::Args((0..rng.below(4)).map(|_| gen_val(rng)).collect()),
        4 | 5 | 6 => BCall::Env(gen_key(rng), gen_val(rng)),
        7 | 8 => BCall::EnvExtend(
            (0..rng.below(4))
                .map(|_| {
                    // now and then a pair that says what the parent's environment says anyway
                    match rng.below(6) {
                        0 => (b"HOME".to_vec(), b"/work".to_vec()),
                        1 => (b"LANG".to_vec(), b"C".to_vec()),
                        _ => (gen_key(rng), gen_val(rng)),
                    }
                })
                .collect(),
        ),
        9 | 10 | 11 => BCall::EnvRemove(gen_key(rng)),
        12 => BCall::EnvClear,
        13 => BCall::Cwd(rng.pick(&[&b"/work/sub"[..], b"/", b"sub", b"/work"]).to_vec()),
        14 => BCall::Stdin(rk_in(rng)),
        15 | 16 => BCall::Stdout(rk_out(rng)),
        17 => BCall::Stderr(rk_out(rng)),
        18 => BCall::Detached,
        _ => BCall::Arg(gen_val(rng)),
    }
}

pub fn generate(rng: &mut Rng, plan: &mut Plan, _index: u64) {
    plan.add_program("tool", vec![Op::ReadAll { fd: 0, chunk: 4096 }, Op::Write { fd: 1, stream: 1, len: 10, chunk: 10 }, Op::Sleep { ns: 60_000_000_000 }]);
    plan.add_program("sh", vec![Op::Exit { code: 0 }]);
    plan.fs.push(FsEntry { path: "/work/sub".into(), node: Node::Dir { searchable: true }, raw: None });
    let mut b = BuilderPlan::default();
    if rng.chance(1, 6) {
        b.shell = Some(gen_val(rng));
    }
    let n = rng.below(14) as usize;
    let clone_at = if rng.chance(1, 3) { Some(rng.below(n as u64 + 1) as usize) } else { None };
    for i in 0..n {
        if clone_at == Some(i) {
            b.calls.push(BCall::Clone);
        }
        b.calls.push(gen_call(rng));
    }
    if clone_at == Some(n) {
        b.calls.push(BCall::Clone);
    }
    if clone_at.is_some() {
        for _ in 0..rng.below(4) {
            b.clone_calls.push(gen_call(rng));
        }
    }
    if rng.chance(1, 4) {
        // the program's own environment changes while the command is being put together
        let gen_set = |rng: &mut Rng| BCall::ParentSetenv(rng.pick(&[&b"HOME"[..], b"LANG", b"HOME", b"K1", b"k1", b"SUBSIM_LATER"]).to_vec(), if rng.chance(1, 3) { None } else { Some(gen_val(rng)) });
        for _ in 0..1 + rng.below(2) {
            let at = if rng.chance(1, 2) { b.calls.len() } else { rng.below(b.calls.len() as u64 + 1) as usize };
            let c = gen_set(rng);
            b.calls.insert(at, c);
        }
        if clone_at.is_some() && rng.chance(1, 2) {
            let at = rng.below(b.clone_calls.len() as u64 + 1) as usize;
            let c = gen_set(rng);
            b.clone_calls.insert(at, c);
        }
    }
    b.term = *rng.pick(&[BTerm::Popen, BTerm::Popen, BTerm::Join, BTerm::Capture, BTerm::Capture, BTerm::Communicate, BTerm::StreamStdout, BTerm::StreamStderr, BTerm::StreamStdin]);
    plan.body = Body::Builder(b);
}

// ---------------------------------------------------------------------------
// reference model: a plain record
// ---------------------------------------------------------------------------

#[derive(Clone, Debug)]
struct Model {
    command: Vec<u8>,
    args: Vec<Vec<u8>>,
    env: Option<BTreeMap<Vec<u8>, Vec<u8>>>,
    /// the same edits as a list (None = clear), for the other reading of "a copy of the
    /// environment": one taken when the command is run
    env_edits: Vec<Option<(Vec<u8>, Option<Vec<u8>>)>>,
    cwd: Option<Vec<u8>>,
    stdin: RKind,
    stdout: RKind,
    stderr: RKind,
    has_data: bool,
    detached: bool,
    /// the model predicts a loud refusal
    refused: Option<String>,
}

thread_local! {
    /// the parent's environment as of now (ParentSetenv changes it)
    static PENV: std::cell::RefCell<BTreeMap<Vec<u8>, Vec<u8>>> = const { std::cell::RefCell::new(BTreeMap::new()) };
}

fn parent_env(_plan: &Plan) -> BTreeMap<Vec<u8>, Vec<u8>> {
    PENV.with(|p| p.borrow().clone())
}

fn initial_parent_env(plan: &Plan) -> BTreeMap<Vec<u8>, Vec<u8>> {
    plan.parent.env.iter().map(|(k, v)| (k.as_bytes().to_vec(), v.as_bytes().to_vec())).collect()
}

fn set_stream(cur: &mut RKind, new: RKind, name: &str, refused: &mut Option<String>, is_input: bool) {
    if is_input && new == RKind::Merge {
        refused.get_or_insert(format!("{}: merge is for outputs only", name));
        return;
    }
    match (*cur, new) {
        (RKind::None, n) => *cur = n,
        (RKind::Pipe, RKind::Pipe) => {}
        // passing `Redirection::None` again is not a second setting only while nothing is set
        _ => {
            refused.get_or_insert(format!("{} configured twice ({:?} then {:?})", name, cur, new));
        }
    }
}

fn apply(m: &mut Model, c: &BCall, plan: &Plan) {
    if m.refused.is_some() {
        return;
    }
    match c {
        BCall::Arg(a) => m.args.push(a.clone()),
        BCall::Args(v) => m.args.extend(v.iter().cloned()),
        BCall::Env(k, v) => {
            m.env.get_or_insert_with(|| parent_env(plan)).insert(k.clone(), v.clone());
            m.env_edits.push(Some((k.clone(), Some(v.clone()))));
        }
        BCall::EnvExtend(l) => {
            let e = m.env.get_or_insert_with(|| parent_env(plan));
            for (k, v) in l {
                e.insert(k.clone(), v.clone());
                m.env_edits.push(Some((k.clone(), Some(v.clone()))));
            }
        }
        BCall::EnvRemove(k) => {
            m.env.get_or_insert_with(|| parent_env(plan)).remove(k);
            m.env_edits.push(Some((k.clone(), None)));
        }
        BCall::EnvClear => {
            m.env = Some(BTreeMap::new());
            m.env_edits.push(None);
        }
        BCall::ParentSetenv(k, v) => {
            use std::os::unix::ffi::OsStrExt;
            let key = std::ffi::OsStr::from_bytes(k);
            match v {
                Some(v) => {
                    std::env::set_var(key, std::ffi::OsStr::from_bytes(v));
                    PENV.with(|p| p.borrow_mut().insert(k.clone(), v.clone()));
                }
                None => {
                    std::env::remove_var(key);
                    PENV.with(|p| p.borrow_mut().remove(k));
                }
            }
            sim().k.probe("parent_env_changed_during_build");
        }
        BCall::Cwd(d) => m.cwd = Some(d.clone()),
        BCall::Stdin(k) => {
            let mut cur = m.stdin;
            // data makes the stream a pipe and remembers the data
            if *k == RKind::Data {
                if cur == RKind::None {
                    m.stdin = RKind::Pipe;
                    m.has_data = true;
                } else {
                    m.refused = Some(format!("stdin configured twice ({:?} then data)", cur));
                }
            } else {
                set_stream(&mut cur, *k, "stdin", &mut m.refused, true);
                m.stdin = cur;
            }
        }
        BCall::Stdout(k) => {
            let mut cur = m.stdout;
            set_stream(&mut cur, *k, "stdout", &mut m.refused, false);
            m.stdout = cur;
        }
        BCall::Stderr(k) => {
            let mut cur = m.stderr;
            set_stream(&mut cur, *k, "stderr", &mut m.refused, false);
            m.stderr = cur;
        }
        BCall::Detached => m.detached = true,
        BCall::Clone => {}
    }
}

fn apply_term(m: &mut Model, t: BTerm) {
    if m.refused.is_some() {
        return;
    }
    let deliver = matches!(t, BTerm::Capture | BTerm::Communicate);
    if m.has_data && !deliver {
        m.refused = Some(format!("input data with {:?}", t));
        return;
    }
    let mut r = None;
    match t {
        BTerm::StreamStdout => {
            let mut c = m.stdout;
            set_stream(&mut c, RKind::Pipe, "stdout", &mut r, false);
            m.stdout = c;
        }
        BTerm::StreamStderr => {
            let mut c = m.stderr;
            set_stream(&mut c, RKind::Pipe, "stderr", &mut r, false);
            m.stderr = c;
        }
        BTerm::StreamStdin => {
            let mut c = m.stdin;
            set_stream(&mut c, RKind::Pipe, "stdin", &mut r, true);
            m.stdin = c;
        }
        _ => {}
    }
    m.refused = r;
}

fn do_call(e: Exec, c: &BCall) -> Exec {
    let redir = |k: RKind| match k {
        RKind::None => Redirection::None,
        RKind::Pipe => Redirection::Pipe,
        RKind::Merge => Redirection::Merge,
        _ => Redirection::File(mk_file("bf", vec![])),
    };
    match c {
        BCall::Arg(a) => e.arg(os(a)),
        BCall::Args(v) => e.args(&v.iter().map(|a| os(a)).collect::<Vec<_>>()),
        BCall::Env(k, v) => e.env(os(k), os(v)),
        BCall::EnvExtend(l) => e.env_extend(&l.iter().map(|(k, v)| (os(k), os(v))).collect::<Vec<_>>()),
        BCall::EnvRemove(k) => e.env_remove(os(k)),
        BCall::EnvClear => e.env_clear(),
        BCall::Cwd(d) => e.cwd(os(d)),
        BCall::Stdin(RKind::Null) => e.stdin(NullFile),
        BCall::Stdin(RKind::Data) => e.stdin(b"some input data".to_vec()),
        BCall::Stdin(k) => e.stdin(redir(*k)),
        BCall::Stdout(RKind::Null) => e.stdout(NullFile),
        BCall::Stdout(k) => e.stdout(redir(*k)),
        BCall::Stderr(RKind::Null) => e.stderr(NullFile),
        BCall::Stderr(k) => e.stderr(redir(*k)),
        BCall::Detached => e.detached(),
        BCall::Clone | BCall::ParentSetenv(..) => e,
    }
}

/// run the terminator; returns Err(panic message) when it panicked
fn do_term(e: Exec, t: BTerm, detached: bool, who: &str) -> Result<(), String> {
    match t {
        BTerm::Popen => lib("Exec::popen", || e.popen()).map(|r| {
            if let Ok(mut p) = r {
                drop(p.stdin.take());
                drop(p.stdout.take());
                drop(p.stderr.take());
                // `detached` is part of the command description: the drop of a live, detached
                // child must not wait, the drop of any other must
                let alive = p.pid().map(|pid| sim().k.is_alive(pid as i32)).unwrap_or(false);
                let w0 = sim().k.wait_log.len();
                let _ = lib_drop("drop(Popen)", p);
                let waited = sim().k.wait_log.len() > w0;
                if alive && waited == detached && sim().poisoned.is_none() {
                    violate("detached_mismatch", format!("detached_mismatch/{}/model_detached={}", who, detached), format!("{}: the model says detached={}, but dropping the Popen of the still running child {} for it", who, detached, if waited { "waited" } else { "did not wait" }));
                }
                kill_all_children();
            }
        }),
        BTerm::Join => lib("Exec::join", || e.join()).map(|_| ()),
        BTerm::Capture => lib("Exec::capture", || e.capture()).map(|_| ()),
        BTerm::Communicate => lib("Exec::communicate", || e.communicate()).map(|r| {
            if let Ok(mut c) = r {
                let _ = c.read();
            }
        }),
        BTerm::StreamStdout => lib("Exec::stream_stdout", || e.stream_stdout().map(|r| drop_reader(r))).map(|_| ()),
        BTerm::StreamStderr => lib("Exec::stream_stderr", || e.stream_stderr().map(|r| drop_reader(r))).map(|_| ()),
        BTerm::StreamStdin => lib("Exec::stream_stdin", || e.stream_stdin().map(drop)).map(|_| ()),
    }
}

fn drop_reader(mut r: impl std::io::Read) {
    let mut b = [0u8; 4096];
    while let Ok(n) = r.read(&mut b) {
        if n == 0 {
            break;
        }
    }
}

fn judge_exec(plan: &Plan, m: &Model, spawn_idx: usize, who: &str) {
    let s = sim();
    let c = match s.k.child_by_spawn(spawn_idx) {
        Some(c) => c,
        None => {
            violate("panic_model_mismatch", format!("panic_model_mismatch/{}/no_process", who), format!("{}: the model predicts a started command, nothing was started", who));
            return;
        }
    };
    let rec = match &c.exec {
        Some(r) => r,
        None => return, // could not start (e.g. cwd) - not this family's business
    };
    let mut want_argv = vec![m.command.clone()];
    want_argv.extend(m.args.iter().cloned());
    if rec.argv != want_argv {
        violate("argv", format!("argv/builder/{}", who), format!("{}: argv {:?}, the model predicts {:?}", who, rec.argv.iter().map(|a| String::from_utf8_lossy(a).into_owned()).collect::<Vec<_>>(), want_argv.iter().map(|a| String::from_utf8_lossy(a).into_owned()).collect::<Vec<_>>()));
    }
    let mut got_env = BTreeMap::new();
    for e in &rec.env {
        let pos = e.iter().position(|&b| b == b'=').unwrap_or(e.len());
        got_env.insert(e[..pos].to_vec(), e.get(pos + 1..).unwrap_or(&[]).to_vec());
    }
    let want_env = m.env.clone().unwrap_or_else(|| parent_env(plan));
    // the copy that the edits act on may as well be taken when the command is run: what was
    // set or removed on the builder is the same either way, the untouched rest may differ
    let mut want_late = parent_env(plan);
    for e in &m.env_edits {
        match e {
            None => want_late.clear(),
            Some((k, Some(v))) => {
                want_late.insert(k.clone(), v.clone());
            }
            Some((k, None)) => {
                want_late.remove(k);
            }
        }
    }
    if got_env != want_env && got_env != want_late {
        let missing: Vec<_> = want_env.keys().filter(|k| !got_env.contains_key(*k)).map(|k| String::from_utf8_lossy(k).into_owned()).collect();
        let extra: Vec<_> = got_env.keys().filter(|k| !want_env.contains_key(*k)).map(|k| String::from_utf8_lossy(k).into_owned()).collect();
        let differ: Vec<_> = want_env.iter().filter(|(k, v)| got_env.get(*k).map(|g| g != *v).unwrap_or(false)).map(|(k, _)| String::from_utf8_lossy(k).into_owned()).collect();
        violate("env", format!("env/builder/{}/missing={}/extra={}/differ={}", who, missing.len().min(2), extra.len().min(2), differ.len().min(2)), format!("{}: environment differs from the model: missing {:?}, extra {:?}, other value {:?}", who, missing, extra, differ));
    }
    let want_cwd = match &m.cwd {
        Some(cw) => s.k.normalize(&s.k.proc(PARENT_PID).cwd, cw).unwrap_or_default(),
        None => s.k.proc(PARENT_PID).cwd.clone(),
    };
    if c.exec_cwd != want_cwd {
        violate("cwd", format!("cwd/builder/{}", who), format!("{}: cwd {:?}, the model predicts {:?}", who, String::from_utf8_lossy(&c.exec_cwd), String::from_utf8_lossy(&want_cwd)));
    }
}

pub fn run(plan: &Plan, b: &BuilderPlan) -> FamOut {
    let (mut ex, mut m) = match &b.shell {
        Some(s) => (
            Exec::shell(os(s)),
            Model { command: b"sh".to_vec(), args: vec![b"-c".to_vec(), s.clone()], env: None, env_edits: vec![], cwd: None, stdin: RKind::None, stdout: RKind::None, stderr: RKind::None, has_data: false, detached: false, refused: None },
        ),
        None => (Exec::cmd("tool"), Model { command: b"tool".to_vec(), args: vec![], env: None, env_edits: vec![], cwd: None, stdin: RKind::None, stdout: RKind::None, stderr: RKind::None, has_data: false, detached: false, refused: None }),
    };
    PENV.with(|p| *p.borrow_mut() = initial_parent_env(plan));
    let mut clone: Option<(Exec, Model)> = None;
    let mut alive = true;
    for (i, c) in b.calls.iter().enumerate() {
        if matches!(c, BCall::ParentSetenv(..)) {
            apply(&mut m, c, plan);
            continue;
        }
        if *c == BCall::Clone {
            let r = lib("Exec::clone", || ex.clone());
            match r {
                Ok(cl) => clone = Some((cl, m.clone())),
                Err(pm) => violate("panic_model_mismatch", "panic_model_mismatch/clone".into(), format!("clone panicked: {}", pm)),
            }
            continue;
        }
        apply(&mut m, c, plan);
        let cc = c.clone();
        let r = lib("Exec builder call", move || do_call(ex, &cc));
        match r {
            Ok(e2) => {
                if let Some(why) = &m.refused {
                    violate("panic_model_mismatch", format!("panic_model_mismatch/accepted/{}", why.split(' ').next().unwrap_or("")), format!("call #{} {:?} was accepted; the model says it must be refused: {}", i, c, why));
                    return FamOut { nontrivial: true };
                }
                ex = e2;
            }
            Err(pm) => {
                if m.refused.is_none() {
                    violate("panic_model_mismatch", format!("panic_model_mismatch/refused/{}", call_name(c)), format!("call #{} {:?} panicked ({}); the model accepts it", i, c, pm));
                }
                alive = false;
                // the builder value is gone
                ex = Exec::cmd("tool");
                break;
            }
        }
    }
    let mut nontrivial = b.calls.len() >= 3;
    // out of scope (caller errors): a piped stdin that nobody feeds or can close
    let mut term = b.term;
    if m.stdin == RKind::Pipe && !m.has_data {
        term = match term {
            BTerm::Join | BTerm::StreamStdout | BTerm::StreamStderr | BTerm::Capture | BTerm::Communicate => BTerm::Popen,
            t => t,
        };
    }
    let b_term = term;
    if alive {
        apply_term(&mut m, b_term);
        let idx = sim().k.n_spawned;
        let r = do_term(ex, b_term, m.detached, "original");
        if sim().poisoned.is_some() {
            return FamOut { nontrivial };
        }
        // both outputs merged is refused by Popen::create (C05's business), not by the builder
        let both_merged = m.stdout == RKind::Merge && m.stderr == RKind::Merge;
        match (r, &m.refused) {
            (Ok(()), None) if both_merged => {}
            (Ok(()), None) => judge_exec(plan, &m, idx, "original"),
            (Err(pm), None) => violate("panic_model_mismatch", format!("panic_model_mismatch/refused/term={:?}", b_term), format!("terminator {:?} panicked ({}); the model accepts it", b_term, pm)),
            (Ok(()), Some(why)) => violate("panic_model_mismatch", format!("panic_model_mismatch/accepted/term={:?}", b_term), format!("terminator {:?} went through; the model says it must be refused: {}", b_term, why)),
            (Err(_), Some(_)) => {}
        }
        kill_all_children();
    }
    if let Some((mut cex, mut cm)) = clone {
        nontrivial = true;
        let mut ok = true;
        for c in &b.clone_calls {
            if matches!(c, BCall::ParentSetenv(..)) {
                apply(&mut cm, c, plan);
                continue;
            }
            apply(&mut cm, c, plan);
            let cc = c.clone();
            match lib("Exec builder call (clone)", move || do_call(cex, &cc)) {
                Ok(e2) => {
                    if let Some(why) = &cm.refused {
                        violate("panic_model_mismatch", format!("panic_model_mismatch/accepted/clone/{}", why.split(' ').next().unwrap_or("")), format!("clone: call {:?} accepted; model: {}", c, why));
                        return FamOut { nontrivial };
                    }
                    cex = e2;
                }
                Err(pm) => {
                    if cm.refused.is_none() {
                        violate("panic_model_mismatch", format!("panic_model_mismatch/refused/clone/{}", call_name(c)), format!("clone: call {:?} panicked ({}); the model accepts it", c, pm));
                    }
                    ok = false;
                    cex = Exec::cmd("tool");
                    break;
                }
            }
        }
        if ok {
            if sim().poisoned.is_some() {
                return FamOut { nontrivial };
            }
            let t = if cm.has_data { BTerm::Capture } else { BTerm::Popen };
            apply_term(&mut cm, t);
            let idx = sim().k.n_spawned;
            let both_merged = cm.stdout == RKind::Merge && cm.stderr == RKind::Merge;
            match (do_term(cex, t, cm.detached, "clone"), &cm.refused) {
                (Ok(()), None) if both_merged => {}
                (Ok(()), None) => judge_exec(plan, &cm, idx, "clone"),
                (Err(pm), None) => violate("panic_model_mismatch", "panic_model_mismatch/refused/clone_term".into(), format!("clone: terminator panicked ({})", pm)),
                _ => {}
            }
            kill_all_children();
        }
    }
    FamOut { nontrivial }
}

fn call_name(c: &BCall) -> &'static str {
    match c {
        BCall::Arg(_) => "arg",
        BCall::Args(_) => "args",
        BCall::Env(..) => "env",
        BCall::EnvExtend(_) => "env_extend",
        BCall::EnvRemove(_) => "env_remove",
        BCall::EnvClear => "env_clear",
        BCall::ParentSetenv(..) => "(parent setenv)",
        BCall::Cwd(_) => "cwd",
        BCall::Stdin(_) => "stdin",
        BCall::Stdout(_) => "stdout",
        BCall::Stderr(_) => "stderr",
        BCall::Detached => "detached",
        BCall::Clone => "clone",
    }
}

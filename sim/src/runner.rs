//! Running one plan, batches of plans (worker), replay and minimisation.

use crate::kernel::*;
use crate::plan::*;
use crate::sim::*;
use crate::sim::PROGRESS;
use serde::{Deserialize, Serialize};
use std::collections::{BTreeMap, BTreeSet};
use std::sync::{Arc, Mutex};

#[derive(Clone, Debug, Default)]
pub struct FamOut {
    pub nontrivial: bool,
}

#[derive(Clone, Debug, Serialize, Deserialize, Default)]
pub struct RunResult {
    pub seed: u64,
    pub violations: Vec<Violation>,
    pub harness_error: Option<String>,
    pub log_hash: u64,
    pub trace_hash: u64,
    pub nontrivial: bool,
    pub steps: u64,
    pub sim_ns: u64,
    pub faults_fired: BTreeMap<String, u64>,
    pub probes: BTreeMap<String, u64>,
    pub choices: Vec<u32>,
    pub log_tail: Vec<String>,
    pub switches: u64,
    /// the workload thread is stuck without system calls; the process must end after reporting
    #[serde(default)]
    pub stuck: bool,
}

pub fn stuck_after_s() -> f64 {
    std::env::var("SUBSIM_STUCK_S").ok().and_then(|s| s.parse().ok()).unwrap_or(6.0)
}

/// Which properties an oracle id speaks for.
pub fn oracle_props(oracle: &str) -> &'static [&'static str] {
    match oracle {
        "deadlock" => &["C01", "C12", "C13", "C14"],
        "spin" => &["C01", "C11", "C12"],
        "panic" => &["C01", "C02", "C03", "C04", "C05", "C06", "C07", "C08", "C09", "C10", "C11", "C12", "C13", "C14", "C15", "C17", "C18"],
        "child_escaped" => &["C07", "C15"],
        "bytes_mismatch" => &["C02", "C03", "C04", "C13"],
        "input_mismatch" => &["C02", "C03", "C04"],
        "eof_late" => &["C02"],
        "absent_present" => &["C02", "C05"],
        "limit_exceeded" | "empty_not_eof" => &["C03"],
        "deadline_overrun" | "early_timeout" | "timeout_without_limit" | "eof_as_timeout" => &["C04"],
        "unexpected_error" => &["C01", "C02", "C03", "C04"],
        "spawn_failed" => &["C07", "C15"],
        "wiring" => &["C05", "C13"],
        "not_refused" | "parent_std_touched" => &["C05"],
        "ebadf_in_parent" => &["C05", "C07", "C08", "C12"],
        "argv" | "image" | "env" | "cwd" | "ids" | "pgid" | "nul_accepted" => &["C06", "C16"],
        "ok_without_exec" | "err_with_child" | "wrong_errno" | "fd_leak_parent" => &["C07", "C14"],
        "zombie_left" | "orphan_left" => &["C07", "C12", "C13", "C14"],
        "fd_leak_child" | "eof_blocked_by_stranger" | "eof_waits_for_lingering" => &["C08"],
        "status_wrong" | "status_changed" | "status_while_running" | "syscall_after_final" | "echild_not_undetermined" => &["C09"],
        "signal_wrong" | "signal_after_observed" => &["C10"],
        "poll_blocked" | "wt_early" | "wt_late" | "wt_exit_late" | "wt_syscalls_when_known" => &["C11"],
        "detached_waited" => &["C12"],
        "detached_mismatch" => &["C12", "C16"],
        "stage_started_after_failure" => &["C14"],
        "status_not_last" | "stderr_lines" => &["C13"],
        "wrong_candidate" | "searched_with_slash" => &["C15"],
        "panic_model_mismatch" => &["C16"],
        "alloc_in_child" => &["C17"],
        "sigmask_inherited" | "sigpipe_not_default" | "sigpipe_not_fatal" => &["C18"],
        _ => &[],
    }
}

fn fmt_event(e: &Event) -> String {
    format!("#{} t={} {:?} {:?}({},{},{}) = {}{}", e.seq, e.t, e.who, e.call, e.a[0], e.a[1], e.a[2], e.ret, if e.in_lib { " [lib]" } else { "" })
}

pub fn build_kernel(plan: &Plan) -> Kernel {
    let mut k = Kernel::new(plan.knobs.pipe_caps.clone(), plan.knobs.pid_span);
    k.faults = plan.knobs.faults.clone();
    k.programs = plan.programs.clone();
    k.add_dir(b"/bin", true);
    for e in &plan.fs {
        match &e.node {
            Node::Dir { searchable } => k.add_dir(&e.bytes(), *searchable),
            n => k.add_node(&e.bytes(), n.clone()),
        }
    }
    {
        let p = k.proc_mut(PARENT_PID);
        p.cred = plan.parent.cred;
        p.disp[SIGPIPE as usize] = plan.parent.sigpipe;
        if plan.parent.sigterm_ignored {
            p.disp[libc::SIGTERM as usize] = Disp::Ignore;
        }
    }
    for fd in 0..3 {
        if plan.parent.nonblock_std & (1 << fd) != 0 {
            if let Some(d) = k.desc_of(PARENT_PID, fd) {
                k.descs[d].status = libc::O_NONBLOCK;
            }
        }
    }
    k.par_mask[0] = plan.parent.sigmask;
    for fd in 0..3 {
        if plan.parent.closed_std & (1 << fd) != 0 {
            let _ = k.k_close(PARENT_PID, fd);
        }
    }
    if plan.parent.files_low {
        k.harness_fd_min = 0;
    }
    k
}

extern "C" {
    static mut environ: *mut *mut libc::c_char;
}
/// libc's own array while ours (with the entries std::env cannot express) is installed
static mut LIBC_ENVIRON: *mut *mut libc::c_char = std::ptr::null_mut();

/// The parent's environment block as it is, entry by entry.
pub fn raw_environ() -> Vec<Vec<u8>> {
    let mut v = vec![];
    unsafe {
        let mut p = environ;
        while !p.is_null() && !(*p).is_null() {
            v.push(std::ffi::CStr::from_ptr(*p).to_bytes().to_vec());
            p = p.add(1);
        }
    }
    v
}

fn set_parent_env(plan: &Plan) {
    // (only the main thread of the worker is running here)
    unsafe {
        if !LIBC_ENVIRON.is_null() {
            environ = LIBC_ENVIRON;
            LIBC_ENVIRON = std::ptr::null_mut();
        }
    }
    // the real process environment is what the library sees
    let keys: Vec<_> = std::env::vars_os().map(|(k, _)| k).collect();
    for k in keys {
        std::env::remove_var(k);
    }
    for (k, v) in &plan.parent.env {
        std::env::set_var(k, v);
    }
    if let Some(raw) = &plan.parent.path_raw {
        use std::os::unix::ffi::OsStringExt;
        std::env::set_var("PATH", std::ffi::OsString::from_vec(raw.clone()));
    }
    if plan.parent.env_odd {
        // a block as execve() accepts it but setenv() never produces it: one name twice (getenv()
        // finds the first) and an entry without '='
        unsafe {
            let mut v: Vec<*mut libc::c_char> = vec![];
            let mut p = environ;
            while !p.is_null() && !(*p).is_null() {
                v.push(*p);
                p = p.add(1);
            }
            v.insert(0, c"SUBSIM_DUP=first".as_ptr() as *mut libc::c_char);
            v.insert(v.len() / 2, c"SUBSIM_BARE".as_ptr() as *mut libc::c_char);
            v.push(c"SUBSIM_DUP=second".as_ptr() as *mut libc::c_char);
            v.push(std::ptr::null_mut());
            LIBC_ENVIRON = environ;
            environ = Box::leak(v.into_boxed_slice()).as_mut_ptr();
        }
    }
}

struct Sentinel0;
impl Drop for Sentinel0 {
    fn drop(&mut self) {
        thread_exit(0);
    }
}
thread_local! {
    static SENT0: std::cell::RefCell<Option<Sentinel0>> = const { std::cell::RefCell::new(None) };
}

static STASH: Mutex<Vec<std::thread::JoinHandle<()>>> = Mutex::new(Vec::new());

/// OS threads of finished extra parent threads, joined by the runner after the run.
pub fn stash_handles(v: Vec<std::thread::JoinHandle<()>>) {
    STASH.lock().unwrap().extend(v);
}

/// set once a workload thread got stuck: its simulation stays installed (the thread cannot be
/// stopped), so this process cannot run anything further and must end after reporting
pub static PROCESS_STUCK: std::sync::atomic::AtomicBool = std::sync::atomic::AtomicBool::new(false);

pub fn run_plan(plan: &Plan, replay: Option<Vec<u32>>) -> RunResult {
    if PROCESS_STUCK.load(std::sync::atomic::Ordering::SeqCst) {
        // (a variant tried while minimising, or a re-check, after an earlier run got stuck)
        return RunResult { seed: plan.seed, stuck: true, ..Default::default() };
    }
    set_parent_env(plan);
    let k = build_kernel(plan);
    let mut s = Sim::new(k, plan.knobs.sched_seed, replay, plan.knobs.personality, plan.knobs.cost_ns);
    s.step_cap = plan.knobs.step_cap;
    s.env_reaps_left = plan.knobs.env_reaps;
    s.env_spawns_left = plan.knobs.env_spawns;
    let t0 = s.add_thread();
    assert_eq!(t0, 0);
    s.threads[0].state = TState::Running;
    install(Box::new(s));
    let out: Arc<Mutex<Option<FamOut>>> = Arc::new(Mutex::new(None));
    let out2 = out.clone();
    let plan2 = plan.clone();
    let h = std::thread::Builder::new()
        .stack_size(4 << 20)
        .spawn(move || {
            // registered first => destroyed last: the library's thread-locals
            // are torn down while this thread still counts as the parent
            SENT0.with(|s| *s.borrow_mut() = Some(Sentinel0));
            CTX.with(|c| c.set(1));
            let r = std::panic::catch_unwind(std::panic::AssertUnwindSafe(|| match &plan2.body {
                Body::Comm(c) => crate::fam_comm::run(&plan2, c),
                Body::Status(c) => crate::fam_status::run(&plan2, c),
                Body::Spawn(c) => crate::fam_spawn::run(&plan2, c),
                Body::Drop(c) => crate::fam_drop::run(&plan2, c),
                Body::Pipe(c) => crate::fam_pipe::run(&plan2, c),
                Body::Builder(c) => crate::fam_builder::run(&plan2, c),
            }));
            match r {
                Ok(fo) => *out2.lock().unwrap() = Some(fo),
                Err(_) => {
                    let msg = crate::api::LAST_PANIC.with(|p| p.borrow_mut().take()).unwrap_or_default();
                    if crate::interpose::in_forked_child() {
                        crate::interpose::child_escaped(&format!("harness panic in forked child: {}", msg));
                    }
                    sim().harness_error.get_or_insert(format!("workload panicked: {}", msg));
                }
            }
        })
        .expect("spawn workload thread");
    // watchdog: a workload that makes no scheduling step for several real seconds is
    // spinning (or stuck) without any system call - invisible to the simulated kernel
    // The measure is CPU time consumed by this process, not wall-clock time: on an overloaded
    // machine a healthy worker may not be scheduled for seconds, and that must not look like a
    // busy loop.  (A hang that burns no CPU cannot come from the library - every call it can
    // block in is simulated - so after two minutes of wall-clock silence it is a harness error.)
    let cpu_now = || -> f64 {
        let mut ts: libc::timespec = unsafe { std::mem::zeroed() };
        unsafe { libc::clock_gettime(libc::CLOCK_PROCESS_CPUTIME_ID, &mut ts) };
        ts.tv_sec as f64 + ts.tv_nsec as f64 * 1e-9
    };
    let mut last = PROGRESS.load(std::sync::atomic::Ordering::Relaxed);
    let mut still_since = std::time::Instant::now();
    let mut cpu_at_progress = cpu_now();
    let mut stuck = false;
    let mut idle_hang = false;
    while !h.is_finished() {
        std::thread::sleep(std::time::Duration::from_millis(if still_since.elapsed().as_millis() < 50 { 1 } else { 20 }));
        let cur = PROGRESS.load(std::sync::atomic::Ordering::Relaxed);
        if cur != last {
            last = cur;
            still_since = std::time::Instant::now();
            cpu_at_progress = cpu_now();
        } else if cpu_now() - cpu_at_progress > stuck_after_s() {
            stuck = true;
            break;
        } else if still_since.elapsed().as_secs_f64() > 120.0 {
            stuck = true;
            idle_hang = true;
            break;
        }
    }
    if stuck {
        // the thread cannot be stopped; report and let the caller end the process
        PROCESS_STUCK.store(true, std::sync::atomic::Ordering::SeqCst);
        let s = sim();
        let label = s.threads.iter().filter_map(|t| t.lib_label.clone()).next().unwrap_or_else(|| "harness".into());
        let in_lib = s.k.in_lib.iter().any(|b| *b);
        let mut rr = RunResult { seed: plan.seed, stuck: true, ..Default::default() };
        if in_lib && !idle_hang {
            rr.violations.push(Violation { oracle: "spin".into(), signature: format!("spin/no_syscalls/in={}", label), message: format!("the parent made no system call and no progress while burning {} s of CPU time inside {} (busy loop or hang outside the kernel); last events: {:?}", stuck_after_s(), label, s.k.log.iter().rev().take(5).map(fmt_event).collect::<Vec<_>>()) });
        } else {
            rr.harness_error = Some(format!("workload stuck outside a library call ({})", label));
        }
        rr.log_hash = s.k.log_hash;
        rr.log_tail = s.k.log.iter().rev().take(100).rev().map(fmt_event).collect();
        return rr;
    }
    let _ = h.join();
    let extra: Vec<_> = STASH.lock().unwrap().drain(..).collect();
    for e in extra {
        let _ = e.join();
    }
    let mut s = uninstall();
    let fo = out.lock().unwrap().take().unwrap_or_default();
    post_checks(&mut s, plan);
    let mut rr = RunResult {
        seed: plan.seed,
        violations: std::mem::take(&mut s.violations),
        harness_error: s.harness_error.take(),
        log_hash: s.k.log_hash,
        trace_hash: s.k.trace_hash,
        nontrivial: fo.nontrivial,
        steps: s.steps,
        sim_ns: s.k.now - 1_000_000_000,
        faults_fired: s.k.fcount.fired.iter().map(|(k, v)| (k.to_string(), *v)).collect(),
        probes: s.k.probes.iter().map(|(k, v)| (k.to_string(), *v)).collect(),
        choices: std::mem::take(&mut s.ch.taken),
        log_tail: s.k.log.iter().rev().take(200).rev().map(fmt_event).collect(),
        switches: s.sched_switches,
        stuck: false,
    };
    // de-duplicate violations by signature
    let mut seen = BTreeSet::new();
    rr.violations.retain(|v| seen.insert(v.signature.clone()));
    rr
}

/// Checks over the final state that apply to every family.
fn post_checks(s: &mut Sim, _plan: &Plan) {
    let touched: Vec<String> = s.k.std_touched.clone();
    for t in touched {
        let key: String = t.split(' ').next().unwrap_or("").to_string();
        s.violate("parent_std_touched", format!("parent_std_touched/{}", key), format!("the parent's own standard streams / process state were touched: {}", t));
    }
    let eb: Vec<String> = s.k.ebadf.clone();
    for e in eb {
        s.violate("ebadf_in_parent", format!("ebadf_in_parent/{}", e.replace(' ', "_")), format!("the library used or closed a descriptor that is not open: {}", e));
    }
    // C17 and C18 hold for every child the library started, in every family
    let kids: Vec<(usize, Option<ChildReport>, bool, u64, Option<Disp>)> = s
        .k
        .all_procs()
        .filter_map(|p| match p.kind {
            PKind::Child(i) => Some((i, p.report.clone(), p.exec.is_some(), p.exec_mask, p.exec_sigpipe)),
            _ => None,
        })
        .collect();
    let parent_mask_nonzero = _plan.parent.sigmask != 0;
    for (i, rep, execd, mask, sp) in kids {
        if let Some(rep) = rep {
            if rep.alloc_count > 0 {
                let sz = rep.alloc_sizes.first().cloned().unwrap_or(0);
                let class = if sz >= 384 { "ge384" } else if sz >= 64 { "ge64" } else { "small" };
                s.violate("alloc_in_child", format!("alloc_in_child/exec_ok={}/first_size_class={}", execd, class), format!("spawn #{}: {} heap allocation(s) between fork and exec (sizes {:?})", i, rep.alloc_count, rep.alloc_sizes));
            }
            if execd {
                if mask != 0 {
                    s.violate("sigmask_inherited", format!("sigmask_inherited/parent_mask_nonzero={}", parent_mask_nonzero), format!("spawn #{}: the program starts with signal mask {:#x} (spawning thread's mask {:#x})", i, mask, _plan.parent.sigmask));
                }
                if sp != Some(Disp::Default) {
                    s.violate("sigpipe_not_default", format!("sigpipe_not_default/parent={:?}", _plan.parent.sigpipe), format!("spawn #{}: the program starts with SIGPIPE {:?}", i, sp));
                }
            }
        }
    }
    // escaped children
    let esc: Vec<(usize, String)> = s.k.all_procs().filter_map(|p| match (p.kind, &p.escaped) {
        (PKind::Child(i), Some(h)) => Some((i, h.clone())),
        _ => None,
    }).collect();
    for (i, h) in esc {
        let kind = if h.contains("panicked") { "panic" } else if h.contains("runaway") { "runaway" } else { "return" };
        s.violate("child_escaped", format!("child_escaped/how={}", kind), format!("spawn #{}: {}", i, h));
    }
}

// ---------------------------------------------------------------------------
// replay files
// ---------------------------------------------------------------------------

#[derive(Serialize, Deserialize, Clone, Debug)]
pub struct Replay {
    pub version: u32,
    pub property: String,
    pub oracle: String,
    pub signature: String,
    pub message: String,
    pub plan: Plan,
    pub choices: Vec<u32>,
    pub log_hash: u64,
    pub log_tail: Vec<String>,
    pub minimised: bool,
    pub found_at: (u64, u64),
    /// index range [from, upto) of the runs the same worker process had made before this one
    /// (base seed in `found_at.0`): a failure that shows only after them means the library keeps
    /// state from one call to the next (a process-wide cache, say)
    #[serde(default)]
    pub prelude: Option<(u64, u64)>,
    #[serde(default)]
    pub thorough: bool,
}

pub fn violations_for<'a>(rr: &'a RunResult, prop: &str) -> Vec<&'a Violation> {
    rr.violations.iter().filter(|v| oracle_props(&v.oracle).contains(&prop)).collect()
}

pub fn run_replay(rp: &Replay) -> RunResult {
    if rp.choices.is_empty() && !rp.minimised {
        // recorded without a choice list (stuck run): the seeded schedule is the replay
        return run_plan(&rp.plan, None);
    }
    run_plan(&rp.plan, Some(rp.choices.clone()))
}

/// Does this (plan, choices) still show `signature`?
fn still_fails(plan: &Plan, choices: &Option<Vec<u32>>, signature: &str) -> Option<RunResult> {
    let rr = run_plan(plan, choices.clone());
    if rr.harness_error.is_none() && rr.violations.iter().any(|v| v.signature == signature) {
        Some(rr)
    } else {
        None
    }
}

/// Delta-debugging over the plan (family-specific shrink candidates), the
/// fault list and the choice list, bounded.
pub fn minimise(plan: &Plan, choices: &[u32], signature: &str, budget: usize) -> (Plan, Vec<u32>, usize) {
    let mut best = plan.clone();
    let mut best_ch: Vec<u32> = choices.to_vec();
    let mut tries = 0usize;
    // 1. plan-level shrinking with the recorded schedule replaced by the seeded
    //    one where that still fails (choices are tied to the plan's shape)
    let mut progress = true;
    while progress && tries < budget {
        progress = false;
        for cand in crate::shrink::candidates(&best) {
            if tries >= budget {
                break;
            }
            tries += 1;
            // try with the seeded scheduler first, then with the recorded list
            if let Some(rr) = still_fails(&cand, &None, signature) {
                best = cand;
                best_ch = rr.choices;
                progress = true;
                break;
            }
            if let Some(rr) = still_fails(&cand, &Some(best_ch.clone()), signature) {
                best = cand;
                best_ch = rr.choices;
                progress = true;
                break;
            }
        }
    }
    // 2. choice list: truncate, then zero blocks
    let mut len = best_ch.len();
    while len > 0 && tries < budget {
        let cut = len / 2;
        let cand: Vec<u32> = best_ch[..cut].to_vec();
        tries += 1;
        if still_fails(&best, &Some(cand.clone()), signature).is_some() {
            best_ch = cand;
            len = cut;
        } else {
            break;
        }
    }
    let mut block = (best_ch.len() / 2).max(1);
    while block >= 1 && tries < budget && !best_ch.is_empty() {
        let mut i = 0;
        while i < best_ch.len() && tries < budget {
            let end = (i + block).min(best_ch.len());
            if best_ch[i..end].iter().any(|&c| c != 0) {
                let mut cand = best_ch.clone();
                for c in cand[i..end].iter_mut() {
                    *c = 0;
                }
                tries += 1;
                if still_fails(&best, &Some(cand.clone()), signature).is_some() {
                    best_ch = cand;
                }
            }
            i = end;
        }
        if block == 1 {
            break;
        }
        block /= 2;
    }
    // trailing zeros are implied
    while best_ch.last() == Some(&0) {
        best_ch.pop();
    }
    (best, best_ch, tries)
}

// ---------------------------------------------------------------------------
// worker: a batch of runs
// ---------------------------------------------------------------------------

#[derive(Serialize, Deserialize, Clone, Debug, Default)]
pub struct BatchOut {
    pub property: String,
    pub base_seed: u64,
    pub from: u64,
    pub to: u64,
    pub runs: u64,
    pub nontrivial: u64,
    pub distinct_hashes: Vec<u64>,
    pub steps: u64,
    pub sim_ns: u128,
    pub faults_fired: BTreeMap<String, u64>,
    pub probes: BTreeMap<String, u64>,
    pub switches: u64,
    /// signature -> (count, first index)
    pub sig_counts: BTreeMap<String, (u64, u64)>,
    /// cross-property observations (oracle not speaking for this property)
    pub other_sigs: BTreeMap<String, u64>,
    pub replays: Vec<String>,
    pub harness_errors: Vec<String>,
    pub samples: Vec<serde_json::Value>,
    pub determinism_rechecks: u64,
    pub determinism_failures: Vec<String>,
    pub wall_s: f64,
    pub batches: BTreeMap<String, u64>,
    /// index -> log hash (only with --emit-hashes)
    pub hashes: BTreeMap<String, u64>,
    #[serde(default)]
    pub ended_early: Option<String>,
}

pub struct WorkerCfg {
    pub prop: String,
    pub base_seed: u64,
    pub from: u64,
    pub to: u64,
    pub known: Vec<String>,
    pub replay_dir: String,
    pub max_minimise: usize,
    pub recheck_every: u64,
    pub deadline_s: f64,
    pub emit_hashes: bool,
}

pub fn plan_summary(plan: &Plan) -> serde_json::Value {
    // a compact, readable rendering for evidence samples
    let body = serde_json::to_value(&plan.body).unwrap_or(serde_json::Value::Null);
    let progs: Vec<String> = plan.programs.iter().map(|p| format!("{:?}", p)).map(|s| if s.len() > 300 { format!("{}...", &s[..300]) } else { s }).collect();
    serde_json::json!({
        "seed": plan.seed,
        "personality": format!("{:?}", plan.knobs.personality),
        "pipe_caps": plan.knobs.pipe_caps,
        "syscall_cost_ns": plan.knobs.cost_ns,
        "batch": plan.knobs.batch,
        "faults": plan.knobs.faults,
        "programs": progs,
        "body": body,
    })
}

pub fn worker(cfg: &WorkerCfg) -> BatchOut {
    let t_start = std::time::Instant::now();
    let mut out = BatchOut { property: cfg.prop.clone(), base_seed: cfg.base_seed, from: cfg.from, to: cfg.to, ..Default::default() };
    let mut hashes: BTreeSet<u64> = BTreeSet::new();
    let mut minimised: BTreeSet<String> = BTreeSet::new();
    for i in cfg.from..cfg.to {
        if cfg.deadline_s > 0.0 && t_start.elapsed().as_secs_f64() > cfg.deadline_s {
            break;
        }
        let plan = gen_plan(&cfg.prop, cfg.base_seed, i);
        let rr = run_plan(&plan, None);
        out.runs += 1;
        if rr.stuck {
            for v in &rr.violations {
                out.sig_counts.entry(v.signature.clone()).or_insert((0, i)).0 += 1;
                let rp = Replay { version: 1, property: cfg.prop.clone(), oracle: v.oracle.clone(), signature: v.signature.clone(), message: v.message.clone(), plan: plan.clone(), choices: vec![], log_hash: rr.log_hash, log_tail: rr.log_tail.clone(), minimised: false, found_at: (cfg.base_seed, i), prelude: Some((cfg.from, i)), thorough: crate::plan::THOROUGH.load(std::sync::atomic::Ordering::Relaxed) };
                let fname = format!("{}/{}-{}-{:016x}.json", cfg.replay_dir, cfg.prop, sanitize(&v.oracle), crate::rng::hash_str(&v.signature));
                if std::fs::write(&fname, serde_json::to_vec_pretty(&rp).unwrap()).is_ok() {
                    out.replays.push(format!("{}\t{}", v.signature, fname));
                }
            }
            if let Some(e) = &rr.harness_error {
                out.harness_errors.push(format!("index {} seed {}: {}", i, plan.seed, e));
            }
            out.ended_early = Some(format!("index {}: workload thread stuck without system calls; worker ends here", i));
            break;
        }
        if cfg.emit_hashes {
            out.hashes.insert(i.to_string(), rr.log_hash);
        }
        *out.batches.entry(plan.knobs.batch.clone()).or_insert(0) += 1;
        out.steps += rr.steps;
        out.sim_ns += rr.sim_ns as u128;
        out.switches += rr.switches;
        for (k, v) in &rr.faults_fired {
            *out.faults_fired.entry(k.clone()).or_insert(0) += v;
        }
        for (k, v) in &rr.probes {
            *out.probes.entry(k.clone()).or_insert(0) += v;
        }
        if rr.nontrivial {
            out.nontrivial += 1;
            hashes.insert(rr.trace_hash);
        }
        if out.samples.len() < 3 && rr.nontrivial {
            out.samples.push(plan_summary(&plan));
        }
        if let Some(e) = &rr.harness_error {
            if out.harness_errors.len() < 10 {
                out.harness_errors.push(format!("index {} seed {}: {}", i, plan.seed, e));
            }
            continue;
        }
        // determinism re-check of a sample of the runs
        if cfg.recheck_every > 0 && i % cfg.recheck_every == 0 {
            let rr2 = run_plan(&plan, None);
            out.determinism_rechecks += 1;
            if rr2.log_hash != rr.log_hash || rr2.violations != rr.violations {
                out.determinism_failures.push(format!("index {} seed {}: log hash {} vs {}", i, plan.seed, rr.log_hash, rr2.log_hash));
            }
        }
        for v in &rr.violations {
            if !oracle_props(&v.oracle).contains(&cfg.prop.as_str()) {
                *out.other_sigs.entry(v.signature.clone()).or_insert(0) += 1;
                continue;
            }
            let e = out.sig_counts.entry(v.signature.clone()).or_insert((0, i));
            e.0 += 1;
            let known = cfg.known.iter().any(|k| k == &v.signature);
            if minimised.contains(&v.signature) {
                continue;
            }
            // beyond the cap a signature still gets its replay file, only un-minimised
            let over_cap = minimised.len() >= cfg.max_minimise;
            if over_cap && minimised.len() >= cfg.max_minimise * 8 {
                continue;
            }
            minimised.insert(v.signature.clone());
            // minimise (less effort for known findings) and persist
            let budget = if over_cap { 0 } else if known { 40 } else { 300 };
            let (mp, mch, _tries) = minimise(&plan, &rr.choices, &v.signature, budget);
            let fin = run_plan(&mp, Some(mch.clone()));
            let (fplan, fch, frr, minim) = if fin.violations.iter().any(|x| x.signature == v.signature) { (mp, mch, fin, true) } else { (plan.clone(), rr.choices.clone(), rr.clone(), false) };
            let msg = frr.violations.iter().find(|x| x.signature == v.signature).map(|x| x.message.clone()).unwrap_or_else(|| v.message.clone());
            let rp = Replay {
                version: 1,
                property: cfg.prop.clone(),
                oracle: v.oracle.clone(),
                signature: v.signature.clone(),
                message: msg,
                plan: fplan,
                choices: fch,
                log_hash: frr.log_hash,
                log_tail: frr.log_tail.clone(),
                minimised: minim,
                found_at: (cfg.base_seed, i),
                prelude: Some((cfg.from, i)),
                thorough: crate::plan::THOROUGH.load(std::sync::atomic::Ordering::Relaxed),
            };
            let fname = format!("{}/{}-{}-{:016x}.json", cfg.replay_dir, cfg.prop, sanitize(&v.oracle), crate::rng::hash_str(&v.signature));
            if std::fs::write(&fname, serde_json::to_vec_pretty(&rp).unwrap()).is_ok() {
                out.replays.push(format!("{}\t{}", v.signature, fname));
            }
        }
        if PROCESS_STUCK.load(std::sync::atomic::Ordering::SeqCst) {
            // a re-check or a variant tried while minimising got stuck
            out.ended_early = Some(format!("index {}: a re-run of this index got stuck without system calls; worker ends here", i));
            break;
        }
    }
    out.distinct_hashes = hashes.into_iter().collect();
    out.wall_s = t_start.elapsed().as_secs_f64();
    out
}

fn sanitize(s: &str) -> String {
    s.chars().map(|c| if c.is_ascii_alphanumeric() || c == '_' { c } else { '_' }).collect()
}

//! Family `comm`: communicate-style exchanges (C01–C04).

use crate::api::*;
use crate::kernel::*;
use crate::plan::*;
use crate::prog::Op;
use crate::rng::{stream_byte, Rng};
use crate::runner::FamOut;
use crate::sim::sim;
use serde::{Deserialize, Serialize};
use std::os::unix::io::AsRawFd;
use std::time::Duration;
use subprocess::{Communicator, Exec, ExitStatus, Pipeline, Popen, PopenConfig, Redirection};

#[derive(Serialize, Deserialize, Clone, Copy, Debug, PartialEq, Eq)]
pub enum CommApi {
    Bytes,
    Text,
    Start,
    ExecCapture,
    ExecCommunicate,
    PipeCapture,
    PipeCommunicate,
}

#[derive(Serialize, Deserialize, Clone, Copy, Debug, PartialEq, Eq)]
pub enum StreamCfg {
    Inherit,
    Pipe,
    Null,
    File,
    Merge,
}

#[derive(Serialize, Deserialize, Clone, Debug, Default)]
pub struct ReadStep {
    pub size: Option<usize>,
    pub time_ns: Option<u64>,
}

#[derive(Serialize, Deserialize, Clone, Debug)]
pub struct CommPlan {
    pub api: CommApi,
    pub stdin: StreamCfg,
    pub stdout: StreamCfg,
    pub stderr: StreamCfg,
    pub input_len: usize,
    pub progs: Vec<String>,
    pub reads: Vec<ReadStep>,
    /// drive the thread-based communicator (cfg(windows) in the source) instead
    #[serde(default)]
    pub thread_variant: bool,
}

impl Default for CommPlan {
    fn default() -> Self {
        CommPlan { api: CommApi::Bytes, stdin: StreamCfg::Inherit, stdout: StreamCfg::Pipe, stderr: StreamCfg::Inherit, input_len: 0, progs: vec![], reads: vec![], thread_variant: false }
    }
}

pub const S_IN: u32 = 0;
pub const S_OUT: u32 = 1;
pub const S_ERR: u32 = 2;

pub fn input_bytes(len: usize, ascii: bool) -> Vec<u8> {
    (0..len as u64)
        .map(|i| {
            let b = stream_byte(S_IN, i);
            if ascii {
                b & 0x7f
            } else {
                b
            }
        })
        .collect()
}

// ---------------------------------------------------------------------------
// generation
// ---------------------------------------------------------------------------

fn gen_child(rng: &mut Rng, cap: usize, in_pipe: bool, timing: bool, small: bool) -> Vec<Op> {
    let chunk = gen_chunk(rng, cap);
    let glen = |rng: &mut Rng| {
        let l = gen_len(rng, cap, !small);
        if small {
            l.min(3000)
        } else if chunk <= 7 {
            l.min(40_000)
        } else {
            l
        }
    };
    let shape = if timing { 8 + rng.below(5) } else { rng.below(9) };
    let mut ops = vec![];
    match shape {
        0 if in_pipe => ops.push(Op::Cat { inp: 0, out: 1, chunk }),
        1 if in_pipe => ops.push(Op::Amplify { inp: 0, out: 1, err: 2, chunk, k_out: rng.below(4) as usize, k_err: rng.below(3) as usize, so: S_OUT, se: S_ERR }),
        2 => {
            if in_pipe {
                ops.push(Op::ReadAll { fd: 0, chunk });
            }
            ops.push(Op::Write { fd: 1, stream: S_OUT, len: glen(rng), chunk });
            ops.push(Op::Write { fd: 2, stream: S_ERR, len: glen(rng), chunk: gen_chunk(rng, cap) });
        }
        3 => {
            ops.push(Op::Write { fd: 2, stream: S_ERR, len: glen(rng), chunk });
            ops.push(Op::Write { fd: 1, stream: S_OUT, len: glen(rng), chunk: gen_chunk(rng, cap) });
            if in_pipe && rng.chance(2, 3) {
                ops.push(Op::ReadAll { fd: 0, chunk });
            }
        }
        5 => {
            ops.push(Op::Close { fd: 0 });
            ops.push(Op::Write { fd: 1, stream: S_OUT, len: glen(rng), chunk });
            ops.push(Op::Write { fd: 2, stream: S_ERR, len: glen(rng), chunk });
        }
        6 => {
            if in_pipe {
                ops.push(Op::Read { fd: 0, n: 1 + rng.below(5000) as usize });
            }
            if rng.chance(1, 2) {
                ops.push(Op::Write { fd: 1, stream: S_OUT, len: glen(rng).min(5000), chunk });
            }
            ops.push(Op::Exit { code: rng.below(4) as i32 });
        }
        7 => {
            // a descendant keeps stdout (and maybe stderr) open after the main process is gone
            let dlen = glen(rng).min(100_000);
            let mut dprog = vec![Op::Close { fd: 0 }, Op::Sleep { ns: rng.range(0, 5_000_000) }];
            if rng.chance(1, 2) {
                dprog.push(Op::Close { fd: 2 });
            }
            dprog.push(Op::Write { fd: 1, stream: 7, len: dlen, chunk });
            ops.push(Op::Daemon { prog: dprog });
            ops.push(Op::Write { fd: 2, stream: S_ERR, len: glen(rng).min(5000), chunk });
            if in_pipe && rng.chance(1, 2) {
                ops.push(Op::ReadAll { fd: 0, chunk });
            }
        }
        8 => {
            // interleaved small writes on both streams
            let n = 2 + rng.below(12) as usize;
            for i in 0..n {
                let l = 1 + rng.below(if small { 300 } else { 9000 }) as usize;
                if i % 2 == 0 {
                    ops.push(Op::Write { fd: 1, stream: S_OUT, len: l, chunk: l });
                } else {
                    ops.push(Op::Write { fd: 2, stream: S_ERR, len: l, chunk: l });
                }
                if timing && rng.chance(1, 2) {
                    ops.push(Op::Sleep { ns: gen_gap(rng) });
                }
            }
            if in_pipe {
                ops.push(Op::ReadAll { fd: 0, chunk });
            }
        }
        9 => {
            // silent for a while, then maybe a bit of output
            ops.push(Op::Sleep { ns: gen_gap(rng) });
            if rng.chance(1, 2) {
                ops.push(Op::Write { fd: 1, stream: S_OUT, len: 1 + rng.below(200) as usize, chunk: 64 });
                ops.push(Op::Sleep { ns: gen_gap(rng) });
            }
            if in_pipe && rng.chance(1, 2) {
                ops.push(Op::ReadAll { fd: 0, chunk });
            }
        }
        10 => {
            ops.push(Op::Trickle { fd: if rng.chance(2, 3) { 1 } else { 2 }, stream: S_OUT, pieces: 1 + rng.below(8) as usize, piece_len: 1 + rng.below(600) as usize, gap_ns: gen_gap(rng) });
            if in_pipe {
                ops.push(Op::ReadAll { fd: 0, chunk });
            }
        }
        11 => {
            // flood: faster than the parent drains
            if in_pipe && rng.chance(1, 2) {
                ops.push(Op::Close { fd: 0 });
            }
            ops.push(Op::Flood { fd: 1, stream: S_OUT, chunk: *rng.pick(&[512usize, 4096, 65536]), max: *rng.pick(&[200_000usize, 1 << 20, 4 << 20]) });
        }
        12 => {
            // closes stdin early while input may be pending, keeps writing slowly
            ops.push(Op::Read { fd: 0, n: 100 });
            ops.push(Op::Close { fd: 0 });
            ops.push(Op::Trickle { fd: 1, stream: S_OUT, pieces: 1 + rng.below(5) as usize, piece_len: 1 + rng.below(300) as usize, gap_ns: gen_gap(rng) });
        }
        _ => {
            // random mix
            let n = 1 + rng.below(10) as usize;
            for _ in 0..n {
                match rng.below(9) {
                    0 => ops.push(Op::Read { fd: 0, n: 1 + rng.below(9000) as usize }),
                    1 => ops.push(Op::ReadN { fd: 0, total: glen(rng), chunk: gen_chunk(rng, cap) }),
                    2 | 3 => ops.push(Op::Write { fd: 1, stream: S_OUT, len: glen(rng), chunk: gen_chunk(rng, cap) }),
                    4 | 5 => ops.push(Op::Write { fd: 2, stream: S_ERR, len: glen(rng), chunk: gen_chunk(rng, cap) }),
                    6 => ops.push(Op::Close { fd: rng.below(3) as i32 }),
                    7 => ops.push(Op::Sleep { ns: rng.range(0, 3_000_000) }),
                    _ => ops.push(Op::Read { fd: 0, n: 1 }),
                }
            }
            if in_pipe && rng.chance(1, 2) {
                ops.push(Op::ReadAll { fd: 0, chunk });
            }
            if rng.chance(1, 3) {
                ops.push(Op::Exit { code: rng.below(3) as i32 });
            }
        }
    }
    ops
}

fn gen_gap(rng: &mut Rng) -> u64 {
    match rng.below(7) {
        0 => rng.range(0, 900_000),
        1 => rng.range(1_000_000, 50_000_000),
        2 => rng.range(50_000_000, 3_000_000_000),
        3 => rng.range(3_000_000_000, 100_000_000_000),
        4 => 26 * 86_400 * 1_000_000_000,
        5 => rng.range(1, 40) * 86_400 * 1_000_000_000,
        _ => rng.range(1_000, 5_000_000),
    }
}

fn gen_time_limit(rng: &mut Rng) -> u64 {
    match rng.below(10) {
        0 => 0,
        1 => rng.range(1, 999_000),
        2 => rng.range(1_000_000, 20_000_000),
        3 => rng.range(20_000_000, 2_000_000_000),
        4 => rng.range(2_000_000_000, 10_000_000_000),
        5 => (1u64 << 31) * 1_000_000 - 1_000_000,
        6 => (1u64 << 31) * 1_000_000 + 1_000_000,
        7 => 30 * 86_400 * 1_000_000_000,
        // far beyond everything: 400 days, or the largest Duration there is (u64::MAX stands for Duration::MAX)
        8 => {
            if rng.chance(1, 2) {
                400 * 86_400 * 1_000_000_000
            } else {
                u64::MAX
            }
        }
        _ => rng.range(100_000_000, 1_500_000_000),
    }
}

fn gen_size_limit(rng: &mut Rng) -> usize {
    match rng.below(9) {
        0 => 1,
        1 => 2,
        2 => 4095,
        3 => 4096,
        4 => 4097,
        5 => {
            if rng.chance(1, 2) {
                1 << 30
            } else {
                usize::MAX
            }
        }
        6 => rng.range(3, 200) as usize,
        7 => rng.range(200, 9000) as usize,
        _ => rng.range(9000, 200_000) as usize,
    }
}

pub fn generate(prop: &str, rng: &mut Rng, plan: &mut Plan, index: u64) {
    let cap = plan.knobs.pipe_caps[0];
    let mut c = CommPlan::default();
    let timing = prop == "C04";
    let limits = prop == "C03";
    c.api = match prop {
        "C03" | "C04" => *rng.pick(&[CommApi::Start, CommApi::Start, CommApi::Start, CommApi::ExecCommunicate, CommApi::PipeCommunicate]),
        _ => *rng.pick(&[CommApi::Bytes, CommApi::Bytes, CommApi::Text, CommApi::Start, CommApi::ExecCapture, CommApi::ExecCapture, CommApi::ExecCommunicate, CommApi::PipeCapture, CommApi::PipeCommunicate]),
    };
    let pipeline = matches!(c.api, CommApi::PipeCapture | CommApi::PipeCommunicate);
    // streams
    c.stdin = *rng.pick(&[StreamCfg::Pipe, StreamCfg::Pipe, StreamCfg::Pipe, StreamCfg::Inherit, StreamCfg::Null]);
    c.stdout = *rng.pick(&[StreamCfg::Pipe, StreamCfg::Pipe, StreamCfg::Pipe, StreamCfg::Inherit, StreamCfg::Null, StreamCfg::File, StreamCfg::Merge]);
    c.stderr = *rng.pick(&[StreamCfg::Pipe, StreamCfg::Pipe, StreamCfg::Inherit, StreamCfg::Null, StreamCfg::File, StreamCfg::Merge]);
    if c.stdout == StreamCfg::Merge && c.stderr == StreamCfg::Merge {
        c.stderr = StreamCfg::Pipe;
    }
    if pipeline {
        // Pipeline::{capture,communicate} decide stdout/stderr themselves
        c.stdout = StreamCfg::Pipe;
        c.stderr = StreamCfg::Pipe;
        if c.stdin == StreamCfg::Null {
            c.stdin = StreamCfg::Inherit;
        }
    }
    if limits || timing {
        // limits are only interesting with something captured
        if c.stdout != StreamCfg::Pipe && c.stderr != StreamCfg::Pipe {
            c.stdout = StreamCfg::Pipe;
        }
    }
    let small = limits && rng.chance(2, 3);
    let in_pipe = c.stdin == StreamCfg::Pipe;
    if in_pipe {
        c.input_len = gen_len(rng, cap, !small && !timing);
        if small {
            c.input_len = c.input_len.min(20_000);
        }
    }
    // faulty batch for C02 (every other run) and sometimes C01/C04
    let faulty = match prop {
        "C02" => index % 2 == 1,
        "C01" | "C04" => index % 4 == 3,
        // size limits: only interrupted calls (EINTR, below), no short transfers
        "C03" => index % 4 == 3,
        _ => false,
    };
    if faulty {
        plan.knobs.batch = "faulty".into();
        let f = &mut plan.knobs.faults;
        if prop == "C03" {
        } else if prop == "C02" || rng.chance(1, 2) {
            f.short_read_pm = *rng.pick(&[0u32, 50, 300, 900]);
            f.short_write_pm = *rng.pick(&[0u32, 50, 300, 900]);
            if f.short_read_pm == 0 && f.short_write_pm == 0 {
                f.short_read_pm = 300;
            }
        }
        if prop != "C02" && prop != "C03" {
            if rng.chance(1, 2) {
                f.stall_pm = *rng.pick(&[5u32, 30, 100]);
            }
            if prop == "C04" && rng.chance(1, 2) {
                f.timer_late_ns = *rng.pick(&[50_000u64, 1_000_000]);
            }
            if prop == "C01" && rng.chance(1, 3) {
                f.child_death = Some((0, rng.range(1, 40), *rng.pick(&[9, 15, 13, 11])));
            }
        }
    }
    // programs
    let nstages = if pipeline { 2 + rng.below(2) as usize } else { 1 };
    for i in 0..nstages {
        let name = format!("prog{}", i);
        let ops = if pipeline {
            gen_stage(rng, cap, i, nstages, in_pipe, small)
        } else {
            gen_child(rng, cap, in_pipe, timing, small)
        };
        plan.add_program(&name, ops);
        c.progs.push(name);
    }
    // the text-returning variant over real text: valid UTF-8 that ends (or is cut) inside a character
    if c.api == CommApi::Text && rng.chance(1, 2) {
        for ops in plan.programs.iter_mut() {
            for op in ops.iter_mut() {
                match op {
                    Op::Write { stream, .. } | Op::Flood { stream, .. } | Op::Trickle { stream, .. } => *stream += 200,
                    Op::Amplify { so, se, .. } => {
                        *so += 200;
                        *se += 200;
                    }
                    Op::Daemon { prog } => {
                        for o in prog.iter_mut() {
                            if let Op::Write { stream, .. } = o {
                                *stream += 200;
                            }
                        }
                    }
                    _ => {}
                }
            }
        }
    }
    // the thread-based communicator: every 5th run, driven through communicate_start-like reads
    if index % 5 == 4 && !pipeline {
        c.thread_variant = true;
        c.api = CommApi::Start;
        for s in [&mut c.stdin, &mut c.stdout, &mut c.stderr] {
            if *s != StreamCfg::Pipe {
                *s = StreamCfg::Inherit;
            }
        }
        if c.stdout != StreamCfg::Pipe && c.stderr != StreamCfg::Pipe {
            c.stdout = StreamCfg::Pipe;
        }
        // no injected short I/O here (std's write_all/ read loops handle them; the helper threads are not library-call context)
        plan.knobs.faults.child_death = None;
    }
    // reads
    let starty = matches!(c.api, CommApi::Start | CommApi::ExecCommunicate | CommApi::PipeCommunicate);
    if starty {
        let n = if limits || timing { 1 + rng.below(6) as usize } else if prop == "C02" { rng.below(4) as usize } else { rng.below(2) as usize };
        for _ in 0..n {
            let mut st = ReadStep::default();
            if limits {
                if rng.chance(4, 5) {
                    st.size = Some(gen_size_limit(rng));
                }
                if rng.chance(1, 8) {
                    st.time_ns = Some(gen_time_limit(rng));
                }
            } else if timing {
                if rng.chance(4, 5) {
                    st.time_ns = Some(gen_time_limit(rng));
                }
                if rng.chance(1, 4) {
                    st.size = Some(gen_size_limit(rng));
                }
            } else {
                if rng.chance(1, 3) {
                    st.size = Some(gen_size_limit(rng));
                }
                // "input once ... then EOF" must also hold across timed-out and resumed reads
                if prop == "C02" && rng.chance(1, 3) {
                    st.time_ns = Some(gen_time_limit(rng).min(2_000_000_000));
                }
            }
            c.reads.push(st);
        }
        // tiny limits against big outputs would need millions of reads: keep the product bounded
        let min_limit = c.reads.iter().filter_map(|r| r.size).min();
        if let Some(m) = min_limit {
            if m < 64 {
                for p in plan.programs.iter_mut() {
                    shrink_outputs(p, 3000);
                }
                c.input_len = c.input_len.min(20_000);
            } else if m < 4096 {
                for p in plan.programs.iter_mut() {
                    shrink_outputs(p, 150_000);
                }
            }
        }
    }
    // keep (bytes moved) / (chunk size) bounded: tiny chunks only with small data
    let min_chunk = plan.programs.iter().map(|p| min_chunk_of(p)).min().unwrap_or(4096);
    let cap_bytes = if min_chunk < 64 { 30_000 } else if min_chunk < 1024 { 300_000 } else { usize::MAX };
    if cap_bytes != usize::MAX {
        c.input_len = c.input_len.min(cap_bytes);
        for p in plan.programs.iter_mut() {
            shrink_outputs(p, cap_bytes);
        }
    }
    // a parent that runs with standard descriptors closed: the library's pipes get their numbers
    // (only for streams the child does not inherit, so the programs behave as modelled)
    if !c.thread_variant && rng.chance(1, 8) {
        let mut mask = 0u8;
        for (i, sc) in [c.stdin, c.stdout, c.stderr].iter().enumerate() {
            let redirected = matches!(sc, StreamCfg::Pipe | StreamCfg::Null | StreamCfg::File) || (i == 2 && c.api == CommApi::PipeCommunicate);
            if redirected && rng.chance(2, 3) {
                mask |= 1 << i;
            }
        }
        plan.parent.closed_std = mask;
        plan.parent.files_low = rng.chance(1, 2);
    }
    // a signal handler of the application runs while the parent is blocked: EINTR
    if plan.knobs.batch == "faulty" && !c.thread_variant && rng.chance(if prop == "C03" { 2 } else { 1 }, 3) {
        let mask = if prop == "C03" { *rng.pick(&[2u8, 3, 7]) } else { *rng.pick(&[1u8, 1, 3, 7]) };
        plan.knobs.faults.eintr = Some((1 + rng.below(40) as u32, 1 + rng.below(3) as u32, mask));
    }
    plan.body = Body::Comm(c);
}

fn min_chunk_of(ops: &[Op]) -> usize {
    ops.iter()
        .map(|op| match op {
            Op::ReadAll { chunk, .. } | Op::ReadN { chunk, .. } | Op::Write { chunk, .. } | Op::Cat { chunk, .. } | Op::Amplify { chunk, .. } | Op::Filter { chunk, .. } | Op::Flood { chunk, .. } => (*chunk).max(1),
            Op::Daemon { prog } => min_chunk_of(prog),
            _ => usize::MAX,
        })
        .min()
        .unwrap_or(usize::MAX)
}

fn shrink_outputs(ops: &mut Vec<Op>, max: usize) {
    for op in ops.iter_mut() {
        match op {
            Op::Write { len, .. } => *len = (*len).min(max),
            Op::Flood { max: m, .. } => *m = (*m).min(max),
            Op::Amplify { k_out, k_err, .. } => {
                *k_out = (*k_out).min(1);
                *k_err = (*k_err).min(1);
            }
            Op::Daemon { prog } => shrink_outputs(prog, max),
            _ => {}
        }
    }
}

fn gen_stage(rng: &mut Rng, cap: usize, i: usize, n: usize, in_pipe: bool, small: bool) -> Vec<Op> {
    let chunk = gen_chunk(rng, cap);
    let has_input = i > 0 || in_pipe;
    let mut ops = vec![];
    match rng.below(4) {
        0 if has_input => ops.push(Op::Cat { inp: 0, out: 1, chunk }),
        1 if has_input => ops.push(Op::Filter { inp: 0, out: 1, err: 2, chunk, tag: (i as u8) * 7 + 1, line_every: 1 + rng.below(4) as usize, id: i as u8 }),
        2 if has_input => ops.push(Op::Amplify { inp: 0, out: 1, err: 2, chunk, k_out: 1 + rng.below(2) as usize, k_err: rng.below(2) as usize, so: 10 + i as u32, se: 20 + i as u32 }),
        _ => {
            let l = gen_len(rng, cap, false);
            ops.push(Op::Write { fd: 1, stream: 10 + i as u32, len: if small { l.min(3000) } else { l.min(300_000) }, chunk });
            ops.push(Op::Write { fd: 2, stream: 20 + i as u32, len: gen_len(rng, cap, false).min(5000), chunk });
            if has_input && rng.chance(2, 3) {
                ops.push(Op::ReadAll { fd: 0, chunk });
            }
        }
    }
    if i + 1 == n && rng.chance(1, 3) {
        ops.push(Op::Exit { code: rng.below(3) as i32 });
    }
    ops
}

// ---------------------------------------------------------------------------
// workload + oracles
// ---------------------------------------------------------------------------

struct Model {
    /// pipe carrying the child's stdin / stdout / stderr (as seen at exec)
    pin: Option<usize>,
    pout: Option<usize>,
    perr: Option<usize>,
    cap_out: bool,
    cap_err: bool,
    got_out: Vec<u8>,
    got_err: Vec<u8>,
    input: Vec<u8>,
    any_time_limit: bool,
    nontrivial: bool,
    limit_cut: bool,
    deadline_hot: bool,
    thread_variant: bool,
    /// injected delay counters at the start of the current read
    stall0: u64,
    late0: u64,
    /// consecutive successful reads that brought output while undelivered input made no progress
    /// although the child's stdin pipe had room
    starved: u32,
    last_delivered: usize,
}

fn redir(cfg: StreamCfg, label: &str) -> Redirection {
    match cfg {
        StreamCfg::Inherit => Redirection::None,
        StreamCfg::Pipe => Redirection::Pipe,
        StreamCfg::Null => Redirection::File(mk_null()),
        StreamCfg::File => Redirection::File(mk_file(label, vec![])),
        StreamCfg::Merge => Redirection::Merge,
    }
}

fn first_diff(a: &[u8], b: &[u8]) -> usize {
    a.iter().zip(b.iter()).position(|(x, y)| x != y).unwrap_or(a.len().min(b.len()))
}

fn classify_mismatch(got: &[u8], want: &[u8], other: Option<&[u8]>) -> &'static str {
    if got.len() < want.len() && want.starts_with(got) {
        return "lost_tail";
    }
    if let Some(o) = other {
        if !o.is_empty() && (got == o || got.starts_with(o) || o.starts_with(got)) && !got.is_empty() {
            return "cross_stream";
        }
    }
    if got.len() > want.len() {
        return "extra_or_dup";
    }
    "differs"
}

impl Model {
    fn hist(&self, p: Option<usize>) -> Vec<u8> {
        match p {
            Some(p) => sim().k.pipes[p].hist.clone(),
            None => vec![],
        }
    }

    fn at_eof(&self, p: Option<usize>) -> bool {
        match p {
            Some(p) => {
                let pp = &sim().k.pipes[p];
                !pp.w_open && pp.avail() == 0
            }
            None => true,
        }
    }

    /// check accumulated output against what was written so far
    fn check_prefix(&mut self, whole: bool, ctx: &str) {
        for (name, got, p, other) in [("stdout", &self.got_out, self.pout, self.perr), ("stderr", &self.got_err, self.perr, self.pout)] {
            let want = self.hist(p);
            let ok = if whole { got == &want } else { want.starts_with(got) };
            if !ok {
                let oh = self.hist(other);
                let kind = classify_mismatch(got, &want, if other != p { Some(&oh) } else { None });
                let off = first_diff(got, &want);
                violate(
                    "bytes_mismatch",
                    format!("bytes_mismatch/stream={}/kind={}/whole={}", name, kind, whole),
                    format!("{}: {} result differs from what the child wrote: got {} bytes, written {} bytes, first difference at offset {} ({})", ctx, name, got.len(), want.len(), off, kind),
                );
            }
        }
    }

    fn check_input(&self, complete: bool, ctx: &str) {
        if let Some(p) = self.pin {
            let h = self.hist(Some(p));
            if !self.input.starts_with(&h) {
                let off = first_diff(&h, &self.input);
                violate("input_mismatch", format!("input_mismatch/kind={}", if h.len() > self.input.len() { "dup_or_extra" } else { "corrupt" }), format!("{}: bytes delivered to the child's stdin are not a prefix of the input: delivered {} of {}, first difference at {}", ctx, h.len(), self.input.len(), off));
            } else if complete && h.len() != self.input.len() {
                violate("input_mismatch", "input_mismatch/kind=incomplete".into(), format!("{}: call succeeded but only {} of {} input bytes were delivered", ctx, h.len(), self.input.len()));
            }
        }
    }

    /// thread-based variant: at a quiescent point (read() returned, every helper blocked or done)
    /// the input has been delivered completely but the child's stdin is still open
    fn check_eof_late_now(&self, threads: bool) {
        if let Some(p) = self.pin {
            let pp = &sim().k.pipes[p];
            if !self.input.is_empty() && pp.hist.len() >= self.input.len() && pp.w_open && pp.r_open {
                if threads {
                    violate("eof_late", "eof_late/at=read_returned_helpers_blocked".into(), format!("all {} input bytes were delivered, read() has returned and every helper thread is blocked, but the child's stdin is still open", self.input.len()));
                } else {
                    // the caller has the control back and may do anything next (wait for the child,
                    // say): a child that reads to end-of-file before it finishes is left hanging
                    violate("eof_late", "eof_late/at=read_returned".into(), format!("all {} input bytes were delivered and read() has returned to the caller, but the child's stdin is still open", self.input.len()));
                }
            }
        }
    }

    /// EOF right after the last input byte: no quiescent point of the parent
    /// between the write that completed the input and the close of the pipe.
    fn check_eof_late(&self) {
        let p = match self.pin {
            Some(p) => p,
            None => return,
        };
        let s = sim();
        let pp = &s.k.pipes[p];
        if self.input.is_empty() {
            return;
        }
        let s1 = match pp.wlog.iter().find(|(_, cum)| *cum >= self.input.len()) {
            Some((seq, _)) => *seq,
            None => return,
        };
        let s2 = pp.w_closed_seq.unwrap_or(u64::MAX);
        let hit = s.k.log.iter().find(|e| e.call == Call::Blocked && e.seq > s1 + 1 && e.seq <= s2 && e.a[1] == 0 && e.in_lib);
        if let Some(e) = hit {
            violate(
                "eof_late",
                format!("eof_late/blocked_in={}", e.a[0]),
                format!("the last input byte was accepted (event {}), the parent then blocked (event {}) while its end of the child's stdin was still open (closed at {:?})", s1, e.seq, pp.w_closed_seq),
            );
        }
    }
}

/// One read() result, independent of which communicator produced it.
pub struct ReadOut {
    pub ok: bool,
    pub out: Option<Vec<u8>>,
    pub err: Option<Vec<u8>>,
    pub kind: Option<std::io::ErrorKind>,
    pub text: String,
}

pub trait CommLike: Sized {
    fn read_n(&mut self) -> ReadOut;
    fn lim_size(self, n: usize) -> Self;
    fn lim_time(self, d: Duration) -> Self;
}

impl CommLike for Communicator {
    fn read_n(&mut self) -> ReadOut {
        match self.read() {
            Ok((o, e)) => ReadOut { ok: true, out: o, err: e, kind: None, text: String::new() },
            Err(ce) => ReadOut { ok: false, kind: Some(ce.kind()), text: format!("{:?}", ce.error), out: ce.capture.0, err: ce.capture.1 },
        }
    }
    fn lim_size(self, n: usize) -> Self {
        self.limit_size(n)
    }
    fn lim_time(self, d: Duration) -> Self {
        self.limit_time(d)
    }
}

impl CommLike for crate::commt::Communicator {
    fn read_n(&mut self) -> ReadOut {
        match self.read() {
            Ok((o, e)) => ReadOut { ok: true, out: o, err: e, kind: None, text: String::new() },
            Err(ce) => ReadOut { ok: false, kind: Some(ce.kind()), text: format!("{:?}", ce.error), out: ce.capture.0, err: ce.capture.1 },
        }
    }
    fn lim_size(self, n: usize) -> Self {
        self.limit_size(n)
    }
    fn lim_time(self, d: Duration) -> Self {
        self.limit_time(d)
    }
}

struct ReadCtx {
    size: Option<usize>,
    time: Option<u64>,
}

/// Evaluate one Communicator::read result.
fn judge_read(m: &mut Model, rc: &ReadCtx, begin_seq: u64, res: &ReadOut, idx: usize) -> bool {
    let t = me();
    let (out, err, is_ok, kind) = (res.out.clone(), res.err.clone(), res.ok, res.kind);
    let ctx = format!("read#{} (size={:?} time={:?})", idx, rc.size, rc.time);
    // presence mirrors "piped"
    if out.is_some() != m.cap_out || err.is_some() != m.cap_err {
        violate("absent_present", format!("absent_present/out={}/err={}", out.is_some(), err.is_some()), format!("{}: stdout captured={} (piped={}), stderr captured={} (piped={})", ctx, out.is_some(), m.cap_out, err.is_some(), m.cap_err));
    }
    let o = out.unwrap_or_default();
    let e = err.unwrap_or_default();
    if let Some(n) = rc.size {
        if o.len() + e.len() > n {
            violate("limit_exceeded", format!("limit_exceeded/ok={}", is_ok), format!("{}: returned {}+{} bytes with size limit {}", ctx, o.len(), e.len(), n));
        }
        if is_ok && o.len() + e.len() >= n {
            let more = m.pout.map(|p| sim().k.pipes[p].avail()).unwrap_or(0) + m.perr.map(|p| sim().k.pipes[p].avail()).unwrap_or(0);
            if more > 0 {
                m.limit_cut = true;
            }
        }
    }
    let empty = o.is_empty() && e.is_empty();
    m.got_out.extend_from_slice(&o);
    m.got_err.extend_from_slice(&e);
    m.check_prefix(false, &ctx);
    if is_ok && empty {
        let eof_out = !m.cap_out || m.at_eof(m.pout);
        let eof_err = !m.cap_err || m.at_eof(m.perr);
        if !(eof_out && eof_err) {
            violate("empty_not_eof", format!("empty_not_eof/out_eof={}/err_eof={}", eof_out, eof_err), format!("{}: successful read returned all-empty data although a captured stream has not reached end-of-file", ctx));
        }
    }
    // --- time limit oracles (virtual clock) ---
    let s = sim();
    let now = s.k.now;
    let evs: Vec<&Event> = s.k.log.iter().rev().take_while(|e| e.seq > begin_seq).filter(|e| e.who == Ent::Par(t)).collect();
    let first_clock = evs.iter().rev().find(|e| e.call == Call::ClockGet).map(|e| e.ret as u64);
    if kind == Some(std::io::ErrorKind::TimedOut) {
        match rc.time {
            None => {
                let last_poll = evs.iter().find(|e| e.call == Call::Poll).map(|e| e.a[1]).unwrap_or(-1);
                violate("timeout_without_limit", format!("timeout_without_limit/last_poll_revents={:#x}", last_poll), format!("{}: ErrorKind::TimedOut although no time limit was set (last poll revents {:#x})", ctx, last_poll));
            }
            Some(tl) => {
                let t0 = first_clock.unwrap_or(now);
                if now + 1_000_000 < t0.saturating_add(tl) {
                    violate("early_timeout", format!("early_timeout/limit_class={}", limit_class(tl)), format!("{}: timeout reported at {} ns, but the limit {} ns counted from the library's first clock reading {} ends at {}", ctx, now, tl, t0, t0.saturating_add(tl)));
                }
            }
        }
    }
    if let (Some(tl), Some(t0)) = (rc.time, first_clock) {
        let d = t0.saturating_add(tl);
        // parent steps that finished at or after the deadline
        let after = evs.iter().filter(|e| e.t >= d && !matches!(e.call, Call::Mark | Call::Blocked | Call::Stall)).count();
        if after > 0 {
            m.deadline_hot = true;
        }
        if after > 16 {
            violate("deadline_overrun", format!("deadline_overrun/limit_class={}", limit_class(tl)), format!("{}: {} further parent calls after the deadline {} passed (returned at {}, {} ns late)", ctx, after, d, now, now.saturating_sub(d)));
        }
        // ... and no single call may sit far beyond the deadline either: lateness beyond what the
        // simulator itself injected (stalls, late timers, call costs) plus the 1 ms granularity
        let injected = (s.stalled_ns - m.stall0) + (s.late_ns - m.late0) + 24 * s.cost_ns;
        let late = now.saturating_sub(d);
        if late > injected + 3_000_000 {
            violate("deadline_overrun", format!("deadline_overrun/blocked/limit_class={}", limit_class(tl)), format!("{}: returned {} ns after the deadline {} although only {} ns of delay were injected (a call blocked past the limit)", ctx, late, d, injected));
        }
    }
    // --- "the remaining input keeps being delivered by later reads" (C03), "input ... even while output
    // is still being produced" (C02): every read() that has input left and room in the child's stdin
    // pipe delivers some of it; twenty reads in a row that only bring output are starvation
    if let (Some(pin), false) = (m.pin, m.thread_variant) {
        let (delivered, room, open) = {
            let pp = &sim().k.pipes[pin];
            (pp.hist.len(), pp.slot_free(), pp.w_open && pp.r_open)
        };
        let pending = delivered < m.input.len();
        if is_ok && !empty && pending && open && room && delivered == m.last_delivered {
            m.starved += 1;
            if m.starved == 20 {
                violate("input_mismatch", "input_mismatch/kind=starved_by_ready_output".into(), format!("{}: 20 successful reads in a row returned output while {} of {} input bytes stayed undelivered, although the child's stdin pipe had room all the time", ctx, m.input.len() - delivered, m.input.len()));
            }
        } else {
            m.starved = 0;
        }
        m.last_delivered = delivered;
    }
    // unexpected error kinds in a fault-free batch are reported by the caller
    is_ok && empty
}

fn limit_class(t: u64) -> &'static str {
    if t == 0 {
        "zero"
    } else if t < 1_000_000 {
        "sub_ms"
    } else if t <= i32::MAX as u64 * 1_000_000 {
        "normal"
    } else {
        "beyond_poll_max"
    }
}

fn drive_reads<C: CommLike>(m: &mut Model, mut comm: C, reads: &[ReadStep], faulty: bool) {
    let mut cur = ReadCtx { size: None, time: None };
    let mut idx = 0usize;
    let mut done = false;
    let mut do_read = |m: &mut Model, comm: &mut C, cur: &ReadCtx, idx: usize| -> (bool, bool) {
        let b = seq();
        m.stall0 = sim().stalled_ns;
        m.late0 = sim().late_ns;
        let r = lib("Communicator::read", || comm.read_n());
        match r {
            Err(p) => {
                violate("panic", "panic/in=Communicator::read".into(), format!("Communicator::read panicked: {}", p));
                (true, true)
            }
            Ok(res) => {
                let nviol = sim().violations.len();
                let fin = judge_read(m, cur, b, &res, idx);
                // an interrupted call (injected EINTR) may fail, but then it is resumable like a
                // timeout: nothing may be lost or duplicated across the retry
                let resumable_eintr = res.kind == Some(std::io::ErrorKind::Interrupted) && eintr_fired();
                if resumable_eintr {
                    sim().k.probe("read_failed_with_eintr_resumed");
                }
                let mut fatal = !res.ok && res.kind != Some(std::io::ErrorKind::TimedOut) && !resumable_eintr;
                if fatal && !faulty {
                    // an error without any injected fault: legitimate only for a broken pipe on stdin
                    if res.kind != Some(std::io::ErrorKind::BrokenPipe) && sim().poisoned.is_none() {
                        violate("unexpected_error", format!("unexpected_error/kind={:?}", res.kind), format!("read#{} failed with {} although no fault was injected", idx, res.text));
                    }
                }
                if m.thread_variant {
                    // quiescence for the thread-based variant: every helper is blocked or done
                    crate::simrt::settle();
                    m.check_eof_late_now(true);
                } else if sim().poisoned.is_none() {
                    m.check_eof_late_now(false);
                }
                if sim().violations.len() > nviol {
                    // a violated exchange is not driven any further
                    fatal = true;
                }
                (fin, fatal)
            }
        }
    };
    for st in reads {
        if let Some(n) = st.size {
            comm = comm.lim_size(n);
            cur.size = Some(n);
        }
        if let Some(t) = st.time_ns {
            comm = comm.lim_time(if t == u64::MAX { Duration::MAX } else { Duration::from_nanos(t) });
            cur.time = Some(t);
            m.any_time_limit = true;
        }
        let (fin, fatal) = do_read(m, &mut comm, &cur, idx);
        idx += 1;
        if fin || fatal || sim().poisoned.is_some() {
            done = true;
            if fin && !fatal {
                m.check_prefix(true, "final");
                m.check_input(true, "final");
            }
            break;
        }
    }
    if !done {
        // drain: keep reading until all-empty; a time limit, once set, can only be replaced
        if cur.time.is_some() {
            let big = 400 * 86_400 * 1_000_000_000u64;
            comm = comm.lim_time(Duration::from_nanos(big));
            cur.time = Some(big);
        }
        let mut guard = 0;
        loop {
            let (fin, fatal) = do_read(m, &mut comm, &cur, idx);
            idx += 1;
            guard += 1;
            if fin && !fatal {
                m.check_prefix(true, "final");
                m.check_input(true, "final");
                break;
            }
            if fatal || sim().poisoned.is_some() || guard > 300_000 {
                break;
            }
            if cur.size.is_none() && cur.time.is_none() {
                // an unlimited successful read returns everything; one more returns empty
                if guard > 3 {
                    violate("empty_not_eof", "empty_not_eof/never_empty".into(), "unlimited reads keep returning data after end-of-file".into());
                    break;
                }
            }
        }
    }
    m.check_eof_late();
    kill_all_children();
    let _ = lib_drop("drop(Communicator)", comm);
}

fn child_pipes(m: &mut Model, idx_in: usize, idx_out: usize) {
    // identify the pipes from the children's descriptor tables at exec
    let s = sim();
    let pipe_at = |spawn: usize, fd: i32| -> Option<usize> {
        let p = s.k.child_by_spawn(spawn)?;
        let d = *p.exec_fds.get(&fd)?;
        match s.k.descs[d].kind {
            DescKind::PipeR(pi) | DescKind::PipeW(pi) => Some(pi),
            _ => None,
        }
    };
    m.pin = pipe_at(idx_in, 0).filter(|p| s.k.pipes[*p].origin == Origin::Lib);
    m.pout = pipe_at(idx_out, 1).filter(|p| s.k.pipes[*p].origin == Origin::Lib);
    m.perr = pipe_at(idx_out, 2).filter(|p| s.k.pipes[*p].origin == Origin::Lib);
}

fn ensure_execd() {
    // children that have not applied their pre-exec calls yet get to do so
    let pids: Vec<i32> = sim().k.procs.values().filter(|p| p.state == PState::PreExec).map(|p| p.pid).collect();
    for pid in pids {
        sim().step_entity(Ent::Proc(pid));
    }
}

fn exit_matches(st: ExitStatus, cause: Option<ExitCause>) -> bool {
    match (st, cause) {
        (ExitStatus::Exited(c), Some(ExitCause::Code(k))) => c == (k as u32 & 0xff),
        (ExitStatus::Signaled(s), Some(ExitCause::Signal(k))) => s as i32 == k,
        _ => false,
    }
}

pub fn run(plan: &Plan, c: &CommPlan) -> FamOut {
    let faulty = plan.knobs.batch == "faulty";
    let ascii = c.api == CommApi::Text;
    let input = if c.stdin == StreamCfg::Pipe { Some(input_bytes(c.input_len, ascii)) } else { None };
    let mut m = Model {
        pin: None,
        pout: None,
        perr: None,
        cap_out: false,
        cap_err: false,
        got_out: vec![],
        got_err: vec![],
        input: input.clone().unwrap_or_default(),
        any_time_limit: false,
        nontrivial: false,
        limit_cut: false,
        deadline_hot: false,
        thread_variant: c.thread_variant,
        stall0: 0,
        late0: 0,
        starved: 0,
        last_delivered: 0,
    };
    if c.thread_variant {
        return run_threaded(plan, c, m, input, faulty);
    }
    let path0 = format!("/bin/{}", c.progs[0]);
    match c.api {
        CommApi::Bytes | CommApi::Text | CommApi::Start => {
            let cfg = PopenConfig { stdin: redir(c.stdin, "in"), stdout: redir(c.stdout, "out"), stderr: redir(c.stderr, "err"), ..Default::default() };
            let r = lib("Popen::create", || Popen::create(&[path0.as_str(), "arg"], cfg));
            let mut p = match r {
                Err(pm) => {
                    violate("panic", "panic/in=Popen::create".into(), format!("Popen::create panicked: {}", pm));
                    return fam_out(&m, plan);
                }
                Ok(Err(e)) => {
                    violate("spawn_failed", format!("spawn_failed/{:?}", e), format!("Popen::create failed without injected fault: {:?}", e));
                    return fam_out(&m, plan);
                }
                Ok(Ok(p)) => p,
            };
            ensure_execd();
            child_pipes(&mut m, 0, 0);
            // the parent's handles must be the peers of what the child holds
            m.cap_out = c.stdout == StreamCfg::Pipe;
            m.cap_err = c.stderr == StreamCfg::Pipe;
            let pfd = |f: &Option<std::fs::File>| f.as_ref().and_then(|f| desc_of_parent_fd(f.as_raw_fd())).and_then(pipe_of_desc);
            if c.stdout == StreamCfg::Pipe {
                m.pout = pfd(&p.stdout).or(m.pout);
            } else if c.stdout != StreamCfg::Merge || c.stderr != StreamCfg::Pipe {
                m.pout = None;
            }
            if c.stderr == StreamCfg::Pipe {
                m.perr = pfd(&p.stderr).or(m.perr);
            } else if c.stderr != StreamCfg::Merge || c.stdout != StreamCfg::Pipe {
                m.perr = None;
            }
            if !m.cap_out {
                m.pout = None;
            }
            if !m.cap_err {
                m.perr = None;
            }
            match c.api {
                CommApi::Bytes => {
                    let b = seq();
                    let r = lib("Popen::communicate_bytes", || p.communicate_bytes(input.as_deref()));
                    match r {
                        Err(pm) => violate("panic", "panic/in=communicate_bytes".into(), format!("communicate_bytes panicked: {}", pm)),
                        Ok(Ok((o, e))) => {
                            let res = ReadOut { ok: true, out: o, err: e, kind: None, text: String::new() };
                            judge_read(&mut m, &ReadCtx { size: None, time: None }, b, &res, 0);
                            m.check_prefix(true, "communicate_bytes");
                            m.check_input(true, "communicate_bytes");
                        }
                        Ok(Err(e)) => judge_err(&mut m, &e, faulty, "communicate_bytes"),
                    }
                    m.check_eof_late();
                }
                CommApi::Text => {
                    let text = input.as_ref().map(|v| String::from_utf8(v.clone()).unwrap());
                    let r = lib("Popen::communicate", || p.communicate(text.as_deref()));
                    match r {
                        Err(pm) => violate("panic", "panic/in=communicate".into(), format!("communicate panicked: {}", pm)),
                        Ok(Ok((o, e))) => {
                            if o.is_some() != m.cap_out || e.is_some() != m.cap_err {
                                violate("absent_present", format!("absent_present/out={}/err={}", o.is_some(), e.is_some()), "text variant: presence does not mirror piped".into());
                            }
                            for (name, got, pp) in [("stdout", &o, m.pout), ("stderr", &e, m.perr)] {
                                if let Some(g) = got {
                                    let want = String::from_utf8_lossy(&m.hist(pp)).into_owned();
                                    if want.ends_with('\u{fffd}') && want.len() > 3 && !want[..want.len() - 3].contains('\u{fffd}') {
                                        sim().k.probe("text_ends_inside_a_character");
                                    }
                                    if *g != want {
                                        violate("bytes_mismatch", format!("bytes_mismatch/stream={}/kind=text", name), format!("communicate(): {} text differs from the lossy decoding of the bytes written ({} vs {} chars)", name, g.len(), want.len()));
                                    }
                                }
                            }
                            m.check_input(true, "communicate");
                        }
                        Ok(Err(e)) => judge_err(&mut m, &e, faulty, "communicate"),
                    }
                    m.check_eof_late();
                }
                _ => {
                    let r = lib("Popen::communicate_start", || p.communicate_start(input.clone()));
                    match r {
                        Err(pm) => violate("panic", "panic/in=communicate_start".into(), format!("communicate_start panicked: {}", pm)),
                        Ok(comm) => drive_reads(&mut m, comm, &c.reads, faulty),
                    }
                }
            }
            kill_all_children();
            let _ = lib_drop("drop(Popen)", p);
        }
        CommApi::ExecCapture | CommApi::ExecCommunicate => {
            let mut ex = Exec::cmd(&path0).arg("arg");
            ex = match c.stdin {
                StreamCfg::Pipe => ex.stdin(input.clone().unwrap()),
                StreamCfg::Null => ex.stdin(subprocess::NullFile),
                StreamCfg::File => ex.stdin(mk_file("in", vec![])),
                _ => ex,
            };
            ex = match c.stdout {
                StreamCfg::Inherit => ex,
                StreamCfg::Null => ex.stdout(subprocess::NullFile),
                other => ex.stdout(redir(other, "out")),
            };
            ex = match c.stderr {
                StreamCfg::Inherit => ex,
                StreamCfg::Null => ex.stderr(subprocess::NullFile),
                other => ex.stderr(redir(other, "err")),
            };
            // capture()/communicate() pipe stdout when neither output is configured
            let auto_out = c.stdout == StreamCfg::Inherit && c.stderr == StreamCfg::Inherit;
            m.cap_out = c.stdout == StreamCfg::Pipe || auto_out;
            m.cap_err = c.stderr == StreamCfg::Pipe;
            if c.api == CommApi::ExecCapture {
                let r = lib("Exec::capture", || ex.capture());
                ensure_execd();
                child_pipes(&mut m, 0, 0);
                if !m.cap_out {
                    m.pout = None;
                }
                if !m.cap_err {
                    m.perr = None;
                }
                match r {
                    Err(pm) => violate("panic", "panic/in=Exec::capture".into(), format!("Exec::capture panicked: {}", pm)),
                    Ok(Ok(cd)) => {
                        m.got_out = cd.stdout.clone();
                        m.got_err = cd.stderr.clone();
                        m.check_prefix(true, "Exec::capture");
                        m.check_input(true, "Exec::capture");
                        if cd.stdout_str() != String::from_utf8_lossy(&cd.stdout) || cd.stderr_str() != String::from_utf8_lossy(&cd.stderr) {
                            violate("bytes_mismatch", "bytes_mismatch/stream=stdout/kind=text".into(), "CaptureData::*_str differs from lossy decoding".into());
                        }
                        let cause = sim().k.child_by_spawn(0).and_then(|p| p.exit_cause);
                        if !exit_matches(cd.exit_status, cause) {
                            violate("status_wrong", format!("status_wrong/in=capture/got={:?}", cd.exit_status), format!("Exec::capture returned {:?}, the child ended with {:?}", cd.exit_status, cause));
                        }
                    }
                    Ok(Err(e)) => match e {
                        subprocess::PopenError::IoError(ioe) => judge_err(&mut m, &ioe, faulty, "Exec::capture"),
                        other => violate("unexpected_error", "unexpected_error/capture_logic".into(), format!("Exec::capture: {:?}", other)),
                    },
                }
                m.check_eof_late();
                kill_all_children();
            } else {
                let r = lib("Exec::communicate", || ex.communicate());
                ensure_execd();
                child_pipes(&mut m, 0, 0);
                if !m.cap_out {
                    m.pout = None;
                }
                if !m.cap_err {
                    m.perr = None;
                }
                match r {
                    Err(pm) => violate("panic", "panic/in=Exec::communicate".into(), format!("Exec::communicate panicked: {}", pm)),
                    Ok(Ok(comm)) => drive_reads(&mut m, comm, &c.reads, faulty),
                    Ok(Err(e)) => violate("spawn_failed", format!("spawn_failed/{:?}", e), format!("Exec::communicate failed: {:?}", e)),
                }
            }
        }
        CommApi::PipeCapture | CommApi::PipeCommunicate => {
            let cmds: Vec<Exec> = c.progs.iter().map(|n| Exec::cmd(format!("/bin/{}", n))).collect();
            let n = cmds.len();
            let mut pl = Pipeline::from_exec_iter(cmds);
            pl = match c.stdin {
                StreamCfg::Pipe => pl.stdin(input.clone().unwrap()),
                StreamCfg::File => pl.stdin(mk_file("in", vec![])),
                _ => pl,
            };
            m.cap_out = true;
            m.cap_err = true;
            if c.api == CommApi::PipeCapture {
                let r = lib("Pipeline::capture", || pl.capture());
                ensure_execd();
                child_pipes(&mut m, 0, n - 1);
                match r {
                    Err(pm) => violate("panic", "panic/in=Pipeline::capture".into(), format!("Pipeline::capture panicked: {}", pm)),
                    Ok(Ok(cd)) => {
                        m.got_out = cd.stdout.clone();
                        m.got_err = cd.stderr.clone();
                        m.check_prefix(true, "Pipeline::capture");
                        m.check_input(true, "Pipeline::capture");
                        let cause = sim().k.child_by_spawn(n - 1).and_then(|p| p.exit_cause);
                        if !exit_matches(cd.exit_status, cause) {
                            violate("status_not_last", format!("status_not_last/got={:?}", cd.exit_status), format!("Pipeline::capture returned {:?}, the last command ended with {:?}", cd.exit_status, cause));
                        }
                    }
                    Ok(Err(e)) => match e {
                        subprocess::PopenError::IoError(ioe) => judge_err(&mut m, &ioe, faulty, "Pipeline::capture"),
                        other => violate("unexpected_error", "unexpected_error/capture_logic".into(), format!("Pipeline::capture: {:?}", other)),
                    },
                }
                m.check_eof_late();
                kill_all_children();
            } else {
                let r = lib("Pipeline::communicate", || pl.communicate());
                ensure_execd();
                child_pipes(&mut m, 0, n - 1);
                match r {
                    Err(pm) => violate("panic", "panic/in=Pipeline::communicate".into(), format!("Pipeline::communicate panicked: {}", pm)),
                    Ok(Ok(comm)) => drive_reads(&mut m, comm, &c.reads, faulty),
                    Ok(Err(e)) => violate("spawn_failed", format!("spawn_failed/{:?}", e), format!("Pipeline::communicate failed: {:?}", e)),
                }
            }
        }
    }
    fam_out(&m, plan)
}

/// The thread-based communicator (extracted from the cfg(windows) source):
/// children are attached directly to simulated pipes.
fn run_threaded(plan: &Plan, c: &CommPlan, mut m: Model, input: Option<Vec<u8>>, faulty: bool) -> FamOut {
    use std::os::unix::io::FromRawFd;
    let mk_pipe = || {
        let mut f = [0i32; 2];
        let r = unsafe { libc::pipe(f.as_mut_ptr()) };
        assert_eq!(r, 0, "simulated pipe()");
        (f[0], f[1])
    };
    let desc = |fd: i32| desc_of_parent_fd(fd).unwrap();
    let mut child_fds: [Option<usize>; 3] = [None, None, None];
    let mut to_close = vec![];
    let mut f_in = None;
    let mut f_out = None;
    let mut f_err = None;
    if c.stdin == StreamCfg::Pipe {
        let (r, w) = mk_pipe();
        child_fds[0] = Some(desc(r));
        m.pin = pipe_of_desc(desc(r));
        to_close.push(r);
        f_in = Some(unsafe { std::fs::File::from_raw_fd(w) });
    }
    if c.stdout == StreamCfg::Pipe {
        let (r, w) = mk_pipe();
        child_fds[1] = Some(desc(w));
        m.pout = pipe_of_desc(desc(w));
        to_close.push(w);
        f_out = Some(unsafe { std::fs::File::from_raw_fd(r) });
    }
    if c.stderr == StreamCfg::Pipe {
        let (r, w) = mk_pipe();
        child_fds[2] = Some(desc(w));
        m.perr = pipe_of_desc(desc(w));
        to_close.push(w);
        f_err = Some(unsafe { std::fs::File::from_raw_fd(r) });
    }
    m.cap_out = f_out.is_some();
    m.cap_err = f_err.is_some();
    let _pid = sim().k.spawn_script(plan.programs[0].clone(), child_fds);
    for fd in to_close {
        unsafe {
            libc::close(fd);
        }
    }
    let input2 = if f_in.is_some() { Some(input.clone().unwrap_or_default()) } else { None };
    let r = lib("commT::communicate", move || crate::commt::communicate(f_in, f_out, f_err, input2));
    match r {
        Err(pm) => violate("panic", "panic/in=commT::communicate".into(), pm),
        Ok(comm) => drive_reads(&mut m, comm, &c.reads, faulty),
    }
    kill_all_children();
    // every helper thread must come to an end once the communicator is gone
    let n = sim().threads.len();
    for u in 1..n {
        crate::simrt::join(u as u8);
    }
    sim().k.probe("thread_variant_runs");
    fam_out(&m, plan)
}

fn judge_err(m: &mut Model, e: &std::io::Error, faulty: bool, ctx: &str) {
    if sim().poisoned.is_some() {
        return;
    }
    if e.kind() == std::io::ErrorKind::TimedOut {
        let s = sim();
        let t = me();
        let last_poll = s.k.log.iter().rev().find(|ev| ev.who == Ent::Par(t) && ev.call == Call::Poll).map(|ev| ev.a[1]).unwrap_or(-1);
        violate("timeout_without_limit", format!("timeout_without_limit/last_poll_revents={:#x}", last_poll), format!("{}: ErrorKind::TimedOut although no time limit was set (last poll revents {:#x})", ctx, last_poll));
        return;
    }
    m.check_input(false, ctx);
    if !faulty && e.kind() != std::io::ErrorKind::BrokenPipe {
        violate("unexpected_error", format!("unexpected_error/kind={:?}", e.kind()), format!("{} failed with {:?} although no fault was injected", ctx, e));
    }
    if e.kind() == std::io::ErrorKind::BrokenPipe {
        // legitimate only if the child really closed its stdin before the input was delivered
        let closed = m.pin.map(|p| !sim().k.pipes[p].r_open).unwrap_or(false);
        if !closed {
            violate("unexpected_error", "unexpected_error/kind=BrokenPipe_reader_alive".into(), format!("{}: BrokenPipe although the child's stdin is still open", ctx));
        }
    }
}

fn fam_out(m: &Model, plan: &Plan) -> FamOut {
    let s = sim();
    let was_full = s.k.pipes.iter().any(|p| p.was_full);
    let multi = s.k.probes.get("poll_multi_ready").cloned().unwrap_or(0) > 0;
    let shorts = s.k.fcount.fired.get("short_read").cloned().unwrap_or(0) + s.k.fcount.fired.get("short_write").cloned().unwrap_or(0);
    let both = m.pout.map(|p| s.k.pipes[p].hist.len() > 4096).unwrap_or(false) && m.perr.map(|p| !s.k.pipes[p].hist.is_empty()).unwrap_or(false);
    let nontrivial = match plan.prop.as_str() {
        "C01" => was_full || multi,
        "C02" => shorts > 0 || both,
        "C03" => m.limit_cut,
        "C04" => m.deadline_hot,
        _ => true,
    };
    if was_full {
        s.k.probe("pipe_was_full");
    }
    if m.limit_cut {
        s.k.probe("limit_cut_with_more_buffered");
    }
    if m.deadline_hot {
        s.k.probe("deadline_passed_inside_read");
    }
    let _ = m.nontrivial;
    FamOut { nontrivial }
}

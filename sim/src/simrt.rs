//! Minimal run-time for extra parent threads (and, later, the rendezvous
//! channel used by the extracted thread-based communicator).

use crate::kernel::*;
use crate::sim::*;

#[derive(Default, Debug)]
pub struct ChanState {
    pub senders_waiting: usize,
    pub receivers_waiting: usize,
    pub queue: usize,
    pub closed_tx: bool,
    pub closed_rx: bool,
}

impl ChanState {
    pub fn recv_ready(&self) -> bool {
        self.senders_waiting > 0 || self.queue > 0 || self.closed_tx
    }
    pub fn send_ready(&self) -> bool {
        self.receivers_waiting > 0 || self.closed_rx
    }
}

struct ExitSentinel(u8);
impl Drop for ExitSentinel {
    fn drop(&mut self) {
        // runs after every other thread-local destructor of this thread
        // (registered first => destroyed last)
        thread_exit(self.0);
    }
}

thread_local! {
    static SENTINEL: std::cell::RefCell<Option<ExitSentinel>> = const { std::cell::RefCell::new(None) };
}

/// Spawn an additional parent thread running `f` under the scheduler.
/// Must be called by a registered parent thread holding the baton.
pub fn spawn<F: FnOnce() + Send + 'static>(f: F) -> (u8, std::thread::JoinHandle<()>) {
    let u = sim().add_thread();
    let baton = sim().threads[u as usize].baton.clone();
    let h = std::thread::Builder::new()
        .stack_size(1 << 20)
        .spawn(move || {
            SENTINEL.with(|s| *s.borrow_mut() = Some(ExitSentinel(u)));
            CTX.with(|c| c.set(u as u32 + 1));
            baton.take();
            {
                let s = sim();
                s.threads[u as usize].state = TState::Running;
                s.k.ev(Ent::Par(u), Call::ThreadStart, [0, 0, 0], 0);
            }
            f();
        })
        .expect("thread spawn");
    (u, h)
}

/// Wait (under the scheduler) until parent thread `u` is done.
pub fn join(u: u8) {
    let me = cur_thread().expect("join from unregistered thread");
    loop {
        if sim().threads[u as usize].state == TState::Done {
            return;
        }
        match sched_block(me, Wait::ThreadDone(u), None) {
            Woke::Ready => return,
            Woke::Poisoned => {
                // make sure the other thread gets to run to its end
                if sim().threads[u as usize].state != TState::Done {
                    let b = sim().threads[u as usize].baton.clone();
                    let mine = sim().threads[me as usize].baton.clone();
                    sim().threads[me as usize].state = TState::Blocked;
                    b.give();
                    mine.take();
                    sim().threads[me as usize].state = TState::Running;
                    continue;
                }
                return;
            }
            Woke::TimedOut => {}
        }
    }
}

//! Minimal run-time for extra parent threads, and the scheduler-aware
//! rendezvous channel + thread spawn used by the extracted thread-based
//! communicator (the only stubbed library-side dependency).

use crate::kernel::*;
use crate::sim::*;

/// Scheduling state of one channel (the messages themselves live in the typed channel object).
#[derive(Default, Debug)]
pub struct ChanState {
    /// tickets of offers made so far / taken so far (FIFO)
    pub offered: u64,
    pub taken: u64,
    pub senders: usize,
    pub closed_rx: bool,
}

impl ChanState {
    pub fn recv_ready(&self) -> bool {
        self.offered > self.taken || self.senders == 0
    }
    pub fn send_ready(&self, ticket: u64) -> bool {
        self.taken > ticket || self.closed_rx
    }
}

struct ExitSentinel(u8);
impl Drop for ExitSentinel {
    fn drop(&mut self) {
        // runs after every other thread-local destructor of this thread
        // (registered first => destroyed last)
        thread_exit(self.0);
    }
}

thread_local! {
    static SENTINEL: std::cell::RefCell<Option<ExitSentinel>> = const { std::cell::RefCell::new(None) };
}

/// Spawn an additional parent thread running `f` under the scheduler.
/// Must be called by a registered parent thread holding the baton.
pub fn spawn<F: FnOnce() + Send + 'static>(f: F) -> (u8, std::thread::JoinHandle<()>) {
    let u = sim().add_thread();
    // a new thread starts with the signal mask of the thread that created it
    if let Some(me) = cur_thread() {
        let m = sim().k.par_mask[me as usize];
        sim().k.par_mask[u as usize] = m;
    }
    let baton = sim().threads[u as usize].baton.clone();
    let h = std::thread::Builder::new()
        .stack_size(1 << 20)
        .spawn(move || {
            SENTINEL.with(|s| *s.borrow_mut() = Some(ExitSentinel(u)));
            CTX.with(|c| c.set(u as u32 + 1));
            baton.take();
            {
                let s = sim();
                s.threads[u as usize].state = TState::Running;
                s.k.ev(Ent::Par(u), Call::ThreadStart, [0, 0, 0], 0);
            }
            let r = std::panic::catch_unwind(std::panic::AssertUnwindSafe(f));
            if r.is_err() {
                let msg = crate::api::LAST_PANIC.with(|p| p.borrow_mut().take()).unwrap_or_default();
                sim().violate("panic", "panic/in=helper_thread".into(), format!("a helper thread panicked: {}", msg));
            }
        })
        .expect("thread spawn");
    (u, h)
}

/// Wait (under the scheduler) until parent thread `u` is done.
pub fn join(u: u8) {
    let me = cur_thread().expect("join from unregistered thread");
    loop {
        if sim().threads[u as usize].state == TState::Done {
            return;
        }
        match sched_block(me, Wait::ThreadDone(u), None) {
            Woke::Ready => return,
            Woke::Poisoned => {
                // make sure the other thread gets to run to its end
                if sim().threads[u as usize].state != TState::Done {
                    let b = sim().threads[u as usize].baton.clone();
                    let mine = sim().threads[me as usize].baton.clone();
                    sim().threads[me as usize].state = TState::Blocked;
                    b.give();
                    mine.take();
                    sim().threads[me as usize].state = TState::Running;
                    continue;
                }
                return;
            }
            Woke::TimedOut => {}
        }
    }
}

/// Let every other parent thread run until it is done or blocked for good
/// (harness-level; used to reach a quiescent point).
pub fn settle() {
    let me = cur_thread().expect("settle from unregistered thread");
    for _ in 0..10_000 {
        let s = sim();
        if s.poisoned.is_some() {
            return;
        }
        let others: Vec<u8> = (0..s.threads.len() as u8).filter(|u| *u != me && s.thread_enabled_pub(*u as usize)).collect();
        if others.is_empty() {
            return;
        }
        let u = others[s.ch.choose(others.len())];
        s.threads[me as usize].state = TState::Runnable;
        switch_pub(me, u);
    }
}

pub mod thread {
    //! `std::thread::spawn` for library code running under the simulator.
    pub struct JoinHandle;

    pub fn spawn<F: FnOnce() + Send + 'static>(f: F) -> JoinHandle {
        let (_u, h) = super::spawn(f);
        crate::runner::stash_handles(vec![h]);
        super::sim().k.probe("helper_thread_spawned");
        JoinHandle
    }
}

pub mod mpsc {
    //! `std::sync::mpsc::sync_channel(0)` (rendezvous) on the virtual clock.
    use super::super::sim::*;
    use crate::kernel::{Call, Ent};
    use std::collections::VecDeque;
    use std::sync::{Arc, Mutex};
    use std::time::Duration;

    struct Inner<T> {
        id: usize,
        q: Mutex<VecDeque<(u64, T)>>,
    }

    pub struct SyncSender<T> {
        inner: Arc<Inner<T>>,
    }

    pub struct Receiver<T> {
        inner: Arc<Inner<T>>,
    }

    #[derive(Debug)]
    pub struct SendError<T>(pub T);

    #[derive(Debug, PartialEq, Eq)]
    pub struct RecvError;

    #[derive(Debug, PartialEq, Eq)]
    pub enum RecvTimeoutError {
        Timeout,
        Disconnected,
    }

    impl<T> std::fmt::Debug for Receiver<T> {
        fn fmt(&self, f: &mut std::fmt::Formatter<'_>) -> std::fmt::Result {
            write!(f, "Receiver({})", self.inner.id)
        }
    }

    impl<T> std::fmt::Debug for SyncSender<T> {
        fn fmt(&self, f: &mut std::fmt::Formatter<'_>) -> std::fmt::Result {
            write!(f, "SyncSender({})", self.inner.id)
        }
    }

    pub fn sync_channel<T>(bound: usize) -> (SyncSender<T>, Receiver<T>) {
        assert_eq!(bound, 0, "only rendezvous channels are modelled");
        let s = sim();
        s.chans.push(super::ChanState { senders: 1, ..Default::default() });
        let id = s.chans.len() - 1;
        let inner = Arc::new(Inner { id, q: Mutex::new(VecDeque::new()) });
        (SyncSender { inner: inner.clone() }, Receiver { inner })
    }

    fn me() -> u8 {
        cur_thread().expect("channel used by an unregistered thread")
    }

    impl<T> Clone for SyncSender<T> {
        fn clone(&self) -> Self {
            sim().chans[self.inner.id].senders += 1;
            SyncSender { inner: self.inner.clone() }
        }
    }

    impl<T> Drop for SyncSender<T> {
        fn drop(&mut self) {
            if sim_installed() {
                let c = &mut sim().chans[self.inner.id];
                c.senders = c.senders.saturating_sub(1);
                sim().k.touch();
            }
        }
    }

    impl<T> Drop for Receiver<T> {
        fn drop(&mut self) {
            if sim_installed() {
                sim().chans[self.inner.id].closed_rx = true;
                sim().k.touch();
            }
        }
    }

    impl<T> SyncSender<T> {
        /// Blocks until the receiver has taken the message (rendezvous).
        pub fn send(&self, msg: T) -> Result<(), SendError<T>> {
            let t = me();
            let id = self.inner.id;
            par_enter(t, Call::Other);
            let s = sim();
            if s.poisoned.is_some() || s.chans[id].closed_rx {
                return Err(SendError(msg));
            }
            let ticket = s.chans[id].offered;
            s.chans[id].offered += 1;
            self.inner.q.lock().unwrap().push_back((ticket, msg));
            s.k.touch();
            s.k.ev(Ent::Par(t), Call::Other, [1, id as i64, ticket as i64], 0);
            loop {
                let s = sim();
                if s.chans[id].taken > ticket {
                    return Ok(());
                }
                if s.chans[id].closed_rx || s.poisoned.is_some() {
                    // take the offer back
                    let mut q = self.inner.q.lock().unwrap();
                    if let Some(pos) = q.iter().position(|(tk, _)| *tk == ticket) {
                        let (_, m) = q.remove(pos).unwrap();
                        // tickets behind this one stay ordered; mark it as consumed
                        drop(q);
                        sim().chans[id].taken = sim().chans[id].taken.max(ticket + 1);
                        return Err(SendError(m));
                    }
                    return Ok(());
                }
                sched_block(t, Wait::ChanSend(id, ticket), None);
            }
        }
    }

    impl<T> Receiver<T> {
        fn take(&self) -> Option<T> {
            let mut q = self.inner.q.lock().unwrap();
            let r = q.pop_front();
            drop(q);
            r.map(|(ticket, m)| {
                let s = sim();
                s.chans[self.inner.id].taken = ticket + 1;
                s.k.touch();
                m
            })
        }

        pub fn recv(&self) -> Result<T, RecvError> {
            match self.recv_deadline(None) {
                Ok(m) => Ok(m),
                Err(_) => Err(RecvError),
            }
        }

        pub fn recv_timeout(&self, d: Duration) -> Result<T, RecvTimeoutError> {
            let now = sim().k.now;
            self.recv_deadline(Some(now.saturating_add(d.as_nanos().min(u64::MAX as u128) as u64)))
        }

        fn recv_deadline(&self, deadline: Option<u64>) -> Result<T, RecvTimeoutError> {
            let t = me();
            let id = self.inner.id;
            par_enter(t, Call::Other);
            let mut others_ran = false;
            loop {
                let s = sim();
                if s.poisoned.is_some() {
                    return Err(RecvTimeoutError::Disconnected);
                }
                if let Some(m) = self.take() {
                    sim().k.ev(Ent::Par(t), Call::Other, [2, id as i64, 0], 1);
                    return Ok(m);
                }
                if s.chans[id].senders == 0 {
                    s.k.ev(Ent::Par(t), Call::Other, [2, id as i64, 0], -1);
                    return Err(RecvTimeoutError::Disconnected);
                }
                if let Some(d) = deadline {
                    if s.k.now >= d {
                        // real sender threads run in parallel with the receiver: by the time it
                        // looks, one of them may have its next message on offer.  In half of the
                        // runs let every other thread run as far as it gets and look once more.
                        if s.helpers_fast.is_none() {
                            s.helpers_fast = Some(s.ch.choose(2) == 1);
                        }
                        if !others_ran && s.helpers_fast == Some(true) {
                            others_ran = true;
                            super::settle();
                            continue;
                        }
                        s.k.ev(Ent::Par(t), Call::Other, [2, id as i64, 0], 0);
                        return Err(RecvTimeoutError::Timeout);
                    }
                }
                sched_block(t, Wait::ChanRecv(id), deadline);
            }
        }
    }
}

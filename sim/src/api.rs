//! Harness-side API used by the workloads (runs on registered parent threads).

use crate::interpose;
use crate::kernel::*;
use crate::sim::*;
use std::cell::RefCell;
use std::fs::File;
use std::os::unix::io::FromRawFd;
use std::panic::{catch_unwind, AssertUnwindSafe};

thread_local! {
    pub static LAST_PANIC: RefCell<Option<String>> = const { RefCell::new(None) };
}

pub static DEBUG: std::sync::atomic::AtomicBool = std::sync::atomic::AtomicBool::new(false);

pub fn install_panic_hook() {
    if std::env::var_os("SUBSIM_DEBUG").is_some() {
        DEBUG.store(true, std::sync::atomic::Ordering::Relaxed);
    }
    std::panic::set_hook(Box::new(|info| {
        let msg = format!("{}", info);
        if DEBUG.load(std::sync::atomic::Ordering::Relaxed) {
            crate::interpose::raw_write(2, format!("[panic] {}\n", msg).as_bytes());
        }
        let _ = LAST_PANIC.try_with(|p| *p.borrow_mut() = Some(msg));
    }));
}

pub fn me() -> u8 {
    cur_thread().expect("not a registered parent thread")
}

/// Run a library call: marks the in-library interval, catches panics, and
/// detects library code escaping in the forked child.
pub fn lib<T>(label: &str, f: impl FnOnce() -> T) -> Result<T, String> {
    let t = me();
    {
        let s = sim();
        s.k.in_lib[t as usize] = true;
        s.threads[t as usize].lib_label = Some(label.to_string());
        s.threads[t as usize].lib_calls += 1;
        s.threads[t as usize].spin = 0;
        s.k.ev(Ent::Par(t), Call::Mark, [1, crate::rng::hash_str(label) as i64 & 0xffff, 0], 0);
    }
    let r = catch_unwind(AssertUnwindSafe(f));
    if interpose::in_forked_child() {
        let how = match &r {
            Ok(_) => format!("library call {} returned in the forked child", label),
            Err(_) => format!("library code panicked in the forked child during {}: {}", label, LAST_PANIC.with(|p| p.borrow().clone()).unwrap_or_default()),
        };
        // leak the result: destructors must not run here
        std::mem::forget(r);
        interpose::child_escaped(&how);
    }
    {
        let s = sim();
        s.k.in_lib[t as usize] = false;
        s.threads[t as usize].lib_label = None;
        s.k.ev(Ent::Par(t), Call::Mark, [0, crate::rng::hash_str(label) as i64 & 0xffff, 0], 0);
    }
    match r {
        Ok(v) => Ok(v),
        Err(_) => Err(LAST_PANIC.with(|p| p.borrow_mut().take()).unwrap_or_else(|| "panic".into())),
    }
}

/// Like `lib` but also covers drops performed while leaving the closure
/// (used for "drop this handle" steps).
pub fn lib_drop<T>(label: &str, v: T) -> Result<(), String> {
    lib(label, move || drop(v))
}

/// Drop `v` the way a panic in the caller's code does: by unwinding out of the scope that owns it
/// (`std::thread::panicking()` is true while its destructor runs).
pub fn lib_drop_unwinding<T>(label: &str, v: T) -> Result<(), String> {
    struct CallerPanic;
    let r = lib(label, move || {
        let _owned = v;
        std::panic::resume_unwind(Box::new(CallerPanic));
    });
    match r {
        // the unwinding reached us: the handle's destructor has run
        Err(_) => Ok(()),
        Ok(()) => Ok(()),
    }
}

pub fn now() -> u64 {
    sim().k.now
}

pub fn seq() -> u64 {
    sim().k.seq
}

pub fn mk_file(label: &str, data: Vec<u8>) -> File {
    let fd = sim().k.mk_file(PARENT_PID, label, data, true);
    unsafe { File::from_raw_fd(fd) }
}

pub fn mk_null() -> File {
    let s = sim();
    let d = s.k.new_desc(DescKind::Null, Origin::Harness);
    let fd = s.k.install(PARENT_PID, d, true, 3);
    unsafe { File::from_raw_fd(fd) }
}

/// Harness-level: let virtual time pass (other entities run meanwhile).
pub fn advance(ns: u64) {
    let t = me();
    let d = sim().k.now.saturating_add(ns);
    sched_block(t, Wait::Never, Some(d));
}

/// Harness-level: run other entities until process `pid` is gone (zombie or
/// reaped) or `max_ns` of virtual time passed. Returns true when gone.
pub fn until_gone(pid: i32, max_ns: u64) -> bool {
    let t = me();
    let d = sim().k.now.saturating_add(max_ns);
    matches!(sched_block(t, Wait::ProcGone(pid), Some(d)), Woke::Ready)
}

/// Harness-level: let up to n steps of other entities happen now.
pub fn yield_steps(n: usize) {
    let t = me();
    for _ in 0..n {
        let s = sim();
        if s.poisoned.is_some() {
            return;
        }
        let en: Vec<Ent> = s.enabled_others(Some(t)).into_iter().filter(|e| !matches!(e, Ent::Par(_))).collect();
        if en.is_empty() {
            return;
        }
        let e = en[s.ch.choose(en.len())];
        s.step_entity(e);
    }
}

/// Kill (harness-level, not through the library) every live process started in this run.
pub fn kill_all_children() {
    let s = sim();
    let pids: Vec<i32> = s.k.procs.values().filter(|p| p.pid != PARENT_PID && p.alive()).map(|p| p.pid).collect();
    for pid in pids {
        // pre-exec children first get to apply their recorded calls
        if s.k.proc(pid).state == PState::PreExec {
            s.step_entity(Ent::Proc(pid));
        }
        if s.k.procs.get(&pid).map(|p| p.alive()).unwrap_or(false) {
            s.k.proc_mut(pid).stopped = false;
            s.k.exit_proc(pid, ExitCause::Signal(SIGKILL));
        }
    }
}

pub fn desc_of_parent_fd(fd: i32) -> Option<usize> {
    sim().k.desc_of(PARENT_PID, fd)
}

pub fn pipe_of_desc(d: usize) -> Option<usize> {
    match sim().k.descs[d].kind {
        DescKind::PipeR(p) | DescKind::PipeW(p) => Some(p),
        _ => None,
    }
}

pub fn violate(oracle: &str, signature: String, message: String) {
    sim().violate(oracle, signature, message);
}

/// Harness-level: give other parent threads (and processes) a chance to run, up to n hand-overs.
pub fn yield_threads(n: usize) {
    let t = me();
    for _ in 0..n {
        if sim().poisoned.is_some() {
            return;
        }
        // a zero-length sleep is a pre-emption point for the scheduler
        crate::sim::par_enter(t, Call::Other);
    }
}

/// Did an injected EINTR fire in this run?
pub fn eintr_fired() -> bool {
    sim().k.fcount.fired.get("eintr").copied().unwrap_or(0) > 0
}

/// Is this the error of an interrupted system call (legitimate only when one was injected)?
pub fn is_eintr(e: &subprocess::PopenError) -> bool {
    match e {
        subprocess::PopenError::IoError(io) => io.raw_os_error() == Some(libc::EINTR) || io.kind() == std::io::ErrorKind::Interrupted,
        _ => false,
    }
}

mod alloc;
mod api;
mod conformance;
mod fam_builder;
mod fam_comm;
mod fam_drop;
mod fam_pipe;
mod fam_shrink;
mod fam_spawn;
mod fam_status;
mod interpose;
mod kernel;
mod plan;
mod prog;
mod rng;
mod runner;
mod shrink;
mod sim;
mod simrt;

/// The library's thread-based communicator (cfg(windows) in the source), extracted by build.rs.
#[allow(dead_code, unused, clippy::all)]
pub mod commt {
    include!(concat!(env!("OUT_DIR"), "/commt.rs"));
}

#[global_allocator]
static GLOBAL: alloc::CountingAlloc = alloc::CountingAlloc;

use runner::*;

fn arg_val(args: &[String], name: &str) -> Option<String> {
    args.iter().position(|a| a == name).and_then(|i| args.get(i + 1).cloned())
}

/// The process may have been started with signals ignored or blocked (a background job of a
/// non-interactive shell has SIGINT and SIGQUIT ignored, nohup ignores SIGHUP, a supervisor may
/// block or ignore SIGCHLD): the real-fork bridge and the conformance table need the defaults.
fn sane_signals() {
    unsafe {
        for sig in [libc::SIGCHLD, libc::SIGINT, libc::SIGQUIT, libc::SIGTERM, libc::SIGALRM, libc::SIGUSR1, libc::SIGUSR2] {
            libc::signal(sig, libc::SIG_DFL);
        }
        let mut set: libc::sigset_t = std::mem::zeroed();
        libc::sigemptyset(&mut set);
        libc::sigprocmask(libc::SIG_SETMASK, &set, std::ptr::null_mut());
    }
}

fn main() {
    let args: Vec<String> = std::env::args().collect();
    if args.len() < 2 {
        eprintln!("usage: subsim worker|replay|one|plan ...");
        std::process::exit(2);
    }
    sane_signals();
    api::install_panic_hook();
    if args.iter().any(|a| a == "--thorough") {
        plan::THOROUGH.store(true, std::sync::atomic::Ordering::Relaxed);
    }
    match args[1].as_str() {
        "worker" => {
            let cfg = WorkerCfg {
                prop: arg_val(&args, "--prop").expect("--prop"),
                base_seed: arg_val(&args, "--seed").and_then(|s| s.parse().ok()).unwrap_or(1),
                from: arg_val(&args, "--from").and_then(|s| s.parse().ok()).unwrap_or(0),
                to: arg_val(&args, "--to").and_then(|s| s.parse().ok()).unwrap_or(100),
                known: arg_val(&args, "--known").map(|s| s.split('\n').filter(|x| !x.is_empty()).map(|x| x.to_string()).collect()).unwrap_or_default(),
                replay_dir: arg_val(&args, "--replay-dir").unwrap_or_else(|| "/verif/replays".into()),
                max_minimise: arg_val(&args, "--max-minimise").and_then(|s| s.parse().ok()).unwrap_or(4),
                recheck_every: arg_val(&args, "--recheck-every").and_then(|s| s.parse().ok()).unwrap_or(50),
                deadline_s: arg_val(&args, "--deadline").and_then(|s| s.parse().ok()).unwrap_or(0.0),
                emit_hashes: args.iter().any(|a| a == "--emit-hashes"),
            };
            let outp = arg_val(&args, "--out").expect("--out");
            let out = worker(&cfg);
            std::fs::write(&outp, serde_json::to_vec(&out).unwrap()).expect("write batch output");
            if out.ended_early.is_some() {
                // a stuck workload thread is still spinning: leave without joining it
                unsafe { libc::syscall(libc::SYS_exit_group, 0) };
            }
        }
        "one" => {
            // run one generated plan and print everything
            let prop = arg_val(&args, "--prop").expect("--prop");
            let seed: u64 = arg_val(&args, "--seed").and_then(|s| s.parse().ok()).unwrap_or(1);
            let index: u64 = arg_val(&args, "--index").and_then(|s| s.parse().ok()).unwrap_or(0);
            let plan = plan::gen_plan(&prop, seed, index);
            if args.iter().any(|a| a == "--show-plan") {
                println!("{}", serde_json::to_string_pretty(&plan).unwrap());
            }
            let rr = run_plan(&plan, None);
            println!("violations: {:#?}", rr.violations);
            println!("harness_error: {:?}", rr.harness_error);
            println!("steps={} sim_ns={} nontrivial={} hash={:x} faults={:?} probes={:?}", rr.steps, rr.sim_ns, rr.nontrivial, rr.log_hash, rr.faults_fired, rr.probes);
            if args.iter().any(|a| a == "--tail") {
                for l in &rr.log_tail {
                    println!("{}", l);
                }
            }
        }
        "conformance" => {
            let (n, bad) = conformance::run();
            for b in &bad {
                println!("CONFORMANCE MISMATCH {}", b);
            }
            println!("conformance: {} scenarios compared with the real kernel, {} mismatches", n, bad.len());
            std::process::exit(if bad.is_empty() { 0 } else { 2 });
        }
        "replay" => {
            let path = args.get(2).expect("replay file");
            let data = std::fs::read(path).expect("read replay file");
            let rp: Replay = serde_json::from_slice(&data).expect("parse replay file");
            if rp.thorough {
                plan::THOROUGH.store(true, std::sync::atomic::Ordering::Relaxed);
            }
            let prelude_first = args.iter().any(|a| a == "--prelude-first");
            if prelude_first {
                // the runs the worker process had made before this one, in a process that has done
                // nothing else yet (state kept by the library is often set once and for all)
                if let Some((from, upto)) = rp.prelude {
                    for i in from..upto {
                        let pl = plan::gen_plan(&rp.property, rp.found_at.0, i);
                        let r = runner::run_plan(&pl, None);
                        if r.stuck {
                            break;
                        }
                    }
                }
            }
            let rr = run_replay(&rp);
            let same = rr.violations.iter().any(|v| v.signature == rp.signature);
            if !same && !prelude_first && rr.harness_error.is_none() && !rr.stuck {
                // not on its own: does it show after the runs the worker process had made before it?
                if let Some((from, upto)) = rp.prelude {
                    if upto > from && upto - from <= 400_000 {
                        let exe = std::env::current_exe().expect("current_exe");
                        let mut cmd = std::process::Command::new(exe);
                        cmd.arg("replay").arg(path).arg("--prelude-first");
                        if args.iter().any(|a| a == "--tail") {
                            cmd.arg("--tail");
                        }
                        let st = cmd.status().expect("re-run with prelude");
                        if st.code() == Some(1) {
                            println!("(not reproduced on its own, but after the {} runs the worker process had made before it: the library keeps state from one call to the next)", upto - from);
                        }
                        std::process::exit(st.code().unwrap_or(2));
                    }
                }
            }
            println!("replay of {}: signature `{}` {}", path, rp.signature, if same { "REPRODUCED" } else { "not reproduced" });
            println!("log hash recorded {:x}, now {:x}{}", rp.log_hash, rr.log_hash, if rp.log_hash == rr.log_hash { " (identical execution)" } else { "" });
            for v in &rr.violations {
                println!("  {} :: {}", v.signature, v.message);
            }
            if let Some(e) = &rr.harness_error {
                println!("harness error: {}", e);
                std::process::exit(2);
            }
            if args.iter().any(|a| a == "--tail") {
                for l in &rr.log_tail {
                    println!("{}", l);
                }
            }
            if rr.stuck {
                unsafe { libc::syscall(libc::SYS_exit_group, if same { 1 } else { 0 }) };
            }
            std::process::exit(if same { 1 } else { 0 });
        }
        _ => {
            eprintln!("unknown command");
            std::process::exit(2);
        }
    }
}

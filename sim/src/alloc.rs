//! Counting global allocator: armed in the really forked child, counts every
//! allocation made outside harness code between `fork` and `exec`/`_exit`.

use std::alloc::{GlobalAlloc, Layout, System};
use std::sync::atomic::{AtomicBool, AtomicU32, AtomicU64, AtomicUsize, Ordering};

pub struct CountingAlloc;

static ARMED: AtomicBool = AtomicBool::new(false);
static HARNESS: AtomicU32 = AtomicU32::new(0);
static COUNT: AtomicU64 = AtomicU64::new(0);
static DEALLOCS: AtomicU64 = AtomicU64::new(0);
const NS: usize = 16;
static SIZES: [AtomicUsize; NS] = [const { AtomicUsize::new(0) }; NS];

pub fn arm() {
    COUNT.store(0, Ordering::Relaxed);
    DEALLOCS.store(0, Ordering::Relaxed);
    ARMED.store(true, Ordering::SeqCst);
}

pub fn enter_harness() {
    HARNESS.fetch_add(1, Ordering::Relaxed);
}

pub fn leave_harness() {
    HARNESS.fetch_sub(1, Ordering::Relaxed);
}

pub fn snapshot() -> (u64, Vec<usize>, u64) {
    let c = COUNT.load(Ordering::Relaxed);
    let n = (c as usize).min(NS);
    let v = (0..n).map(|i| SIZES[i].load(Ordering::Relaxed)).collect();
    (c, v, DEALLOCS.load(Ordering::Relaxed))
}

#[inline]
fn note(size: usize) {
    if ARMED.load(Ordering::Relaxed) && HARNESS.load(Ordering::Relaxed) == 0 {
        let i = COUNT.fetch_add(1, Ordering::Relaxed) as usize;
        if i < NS {
            SIZES[i].store(size, Ordering::Relaxed);
        }
    }
}

unsafe impl GlobalAlloc for CountingAlloc {
    unsafe fn alloc(&self, l: Layout) -> *mut u8 {
        note(l.size());
        System.alloc(l)
    }
    unsafe fn alloc_zeroed(&self, l: Layout) -> *mut u8 {
        note(l.size());
        System.alloc_zeroed(l)
    }
    unsafe fn realloc(&self, p: *mut u8, l: Layout, n: usize) -> *mut u8 {
        note(n);
        System.realloc(p, l, n)
    }
    unsafe fn dealloc(&self, p: *mut u8, l: Layout) {
        if ARMED.load(Ordering::Relaxed) && HARNESS.load(Ordering::Relaxed) == 0 {
            DEALLOCS.fetch_add(1, Ordering::Relaxed);
        }
        System.dealloc(p, l)
    }
}

//! Keeping the stub honest: micro-scenarios run through both the simulated
//! kernel and the real Linux kernel; observations must be identical.

use crate::kernel::*;

const P: i32 = PARENT_PID;

fn sim_kernel() -> Kernel {
    let mut k = Kernel::new(vec![65536], 16);
    k.in_lib[0] = false;
    k
}

struct Real;

impl Real {
    fn pipe() -> (i32, i32) {
        let mut f = [0i32; 2];
        unsafe {
            assert_eq!(libc::pipe(f.as_mut_ptr()), 0);
        }
        (f[0], f[1])
    }
    fn poll(fd: i32, ev: i16) -> i64 {
        let mut p = libc::pollfd { fd, events: ev, revents: 0 };
        unsafe {
            libc::poll(&mut p, 1, 0);
        }
        p.revents as i64
    }
    fn write(fd: i32, n: usize) -> i64 {
        let buf = vec![7u8; n];
        let r = unsafe { libc::write(fd, buf.as_ptr() as *const _, n) };
        if r < 0 {
            -(unsafe { *libc::__errno_location() } as i64)
        } else {
            r as i64
        }
    }
    fn read(fd: i32, n: usize) -> i64 {
        let mut buf = vec![0u8; n];
        let r = unsafe { libc::read(fd, buf.as_mut_ptr() as *mut _, n) };
        if r < 0 {
            -(unsafe { *libc::__errno_location() } as i64)
        } else {
            r as i64
        }
    }
    fn close(fd: i32) -> i64 {
        let r = unsafe { libc::close(fd) };
        if r < 0 {
            -(unsafe { *libc::__errno_location() } as i64)
        } else {
            0
        }
    }
    fn nonblock(fd: i32) {
        unsafe {
            let fl = libc::fcntl(fd, libc::F_GETFL);
            libc::fcntl(fd, libc::F_SETFL, fl | libc::O_NONBLOCK);
        }
    }
}

fn sim_write(k: &mut Kernel, fd: i32, n: usize) -> i64 {
    let buf = vec![7u8; n];
    match k.try_write(P, fd, &buf, None) {
        Ok(n) => n as i64,
        Err(Blk::Block) => -(libc::EAGAIN as i64),
        Err(Blk::Err(e)) => -(e as i64),
    }
}

fn sim_read(k: &mut Kernel, fd: i32, n: usize) -> i64 {
    let mut buf = vec![0u8; n];
    match k.try_read(P, fd, &mut buf, None) {
        Ok(n) => n as i64,
        Err(Blk::Block) => -(libc::EAGAIN as i64),
        Err(Blk::Err(e)) => -(e as i64),
    }
}

fn sim_close(k: &mut Kernel, fd: i32) -> i64 {
    match k.k_close(P, fd) {
        Ok(()) => 0,
        Err(e) => -(e as i64),
    }
}

pub struct Case {
    pub name: &'static str,
    pub sim: Vec<i64>,
    pub real: Vec<i64>,
}

/// One pipe scenario, parameterised: fill `fill` bytes (in 4096-byte writes plus a
/// remainder), read `drain`, optionally close an end, then observe poll on both
/// ends and one read / one write.
fn pipe_case(name: &'static str, fill: usize, drain: usize, close_r: bool, close_w: bool) -> Case {
    // --- simulated
    let mut k = sim_kernel();
    let (r, w) = k.k_pipe(P, Ent::Harness, false).unwrap();
    let mut sim = vec![];
    let mut left = fill;
    while left > 0 {
        let n = left.min(4096);
        sim_write(&mut k, w, n);
        left -= n;
    }
    let mut d = drain;
    while d > 0 {
        let n = d.min(4096);
        sim_read(&mut k, r, n);
        d -= n;
    }
    if close_r {
        sim_close(&mut k, r);
    }
    if close_w {
        sim_close(&mut k, w);
    }
    if !close_r {
        sim.push(k.poll_revents(P, r, POLLIN) as i64);
    }
    if !close_w {
        sim.push(k.poll_revents(P, w, POLLOUT) as i64);
        sim.push(sim_write(&mut k, w, 1));
    }
    if !close_r {
        sim.push(sim_read(&mut k, r, 10));
    }
    // --- real
    let (rr, rw) = Real::pipe();
    Real::nonblock(rr);
    Real::nonblock(rw);
    let mut real = vec![];
    let mut left = fill;
    while left > 0 {
        let n = left.min(4096);
        Real::write(rw, n);
        left -= n;
    }
    let mut d = drain;
    while d > 0 {
        let n = d.min(4096);
        Real::read(rr, n);
        d -= n;
    }
    if close_r {
        Real::close(rr);
    }
    if close_w {
        Real::close(rw);
    }
    if !close_r {
        real.push(Real::poll(rr, POLLIN));
    }
    if !close_w {
        real.push(Real::poll(rw, POLLOUT));
        real.push(Real::write(rw, 1));
    }
    if !close_r {
        real.push(Real::read(rr, 10));
    }
    if !close_r {
        Real::close(rr);
    }
    if !close_w {
        Real::close(rw);
    }
    Case { name, sim, real }
}

fn fd_cases() -> Vec<Case> {
    let mut out = vec![];
    // close of a closed descriptor, cloexec bookkeeping across dup2 / F_DUPFD_CLOEXEC
    {
        let mut k = sim_kernel();
        let (r, w) = k.k_pipe(P, Ent::Harness, false).unwrap();
        let mut sim = vec![];
        sim.push(k.k_fcntl(P, r, libc::F_GETFD, 0).unwrap() as i64);
        k.k_fcntl(P, r, libc::F_SETFD, libc::FD_CLOEXEC as i64).unwrap();
        sim.push(k.k_fcntl(P, r, libc::F_GETFD, 0).unwrap() as i64);
        let d = k.k_dup2(P, r, 200).unwrap();
        sim.push(k.k_fcntl(P, d, libc::F_GETFD, 0).unwrap() as i64);
        let d2 = k.k_fcntl(P, r, libc::F_DUPFD_CLOEXEC, 300).unwrap();
        sim.push((d2 >= 300) as i64);
        sim.push(k.k_fcntl(P, d2, libc::F_GETFD, 0).unwrap() as i64);
        sim.push(sim_close(&mut k, r));
        sim.push(sim_close(&mut k, r));
        sim.push(match k.k_fcntl(P, r, libc::F_GETFD, 0) {
            Ok(v) => v as i64,
            Err(e) => -(e as i64),
        });
        // the duplicate keeps the pipe readable-open: writer does not get EPIPE
        sim.push(sim_write(&mut k, w, 5));
        sim_close(&mut k, d);
        sim_close(&mut k, d2);
        sim.push(sim_write(&mut k, w, 5));
        let mut real = vec![];
        unsafe {
            let (rr, rw) = Real::pipe();
            real.push(libc::fcntl(rr, libc::F_GETFD) as i64);
            libc::fcntl(rr, libc::F_SETFD, libc::FD_CLOEXEC);
            real.push(libc::fcntl(rr, libc::F_GETFD) as i64);
            let d = libc::dup2(rr, 200);
            real.push(libc::fcntl(d, libc::F_GETFD) as i64);
            let d2 = libc::fcntl(rr, libc::F_DUPFD_CLOEXEC, 300);
            real.push((d2 >= 300) as i64);
            real.push(libc::fcntl(d2, libc::F_GETFD) as i64);
            real.push(Real::close(rr));
            real.push(Real::close(rr));
            let g = libc::fcntl(rr, libc::F_GETFD);
            real.push(if g < 0 { -(*libc::__errno_location() as i64) } else { g as i64 });
            real.push(Real::write(rw, 5));
            Real::close(d);
            Real::close(d2);
            real.push(Real::write(rw, 5));
            Real::close(rw);
        }
        out.push(Case { name: "cloexec_dup2_dupfd_close_twice_epipe", sim, real });
    }
    out
}

/// process table semantics, with real forked children that only _exit or pause
fn proc_cases() -> Vec<Case> {
    let mut out = vec![];
    // simulated: a child that exits with 7; a child that runs
    {
        let mut k = sim_kernel();
        let c = k.fork_proc(P, 0, PKind::Child(0));
        k.proc_mut(c).state = PState::Running;
        let mut sim = vec![];
        let w = |k: &mut Kernel, pid: i32, fl: i32| -> i64 {
            match k.try_waitpid(P, Ent::Harness, pid, fl) {
                Ok((p, st)) => {
                    if p == 0 {
                        0
                    } else {
                        1_000_000 + st as i64
                    }
                }
                Err(Blk::Block) => -1,
                Err(Blk::Err(e)) => -(e as i64),
            }
        };
        sim.push(w(&mut k, c, libc::WNOHANG)); // running: 0
        sim.push(match k.k_kill(Ent::Harness, c, 0) {
            Ok(()) => 0,
            Err(e) => -(e as i64),
        });
        k.exit_proc(c, ExitCause::Code(7));
        sim.push(match k.k_kill(Ent::Harness, c, libc::SIGTERM) {
            Ok(()) => 0,
            Err(e) => -(e as i64),
        }); // zombie: success
        sim.push(w(&mut k, c, libc::WNOHANG)); // status
        sim.push(w(&mut k, c, libc::WNOHANG)); // ECHILD
        sim.push(match k.k_kill(Ent::Harness, c, 0) {
            Ok(()) => 0,
            Err(e) => -(e as i64),
        }); // ESRCH (probed with signal 0: on the real side the pid could in principle be somebody else's by now)
        sim.push(w(&mut k, 1, libc::WNOHANG)); // not our child: ECHILD
        // killed by a signal: status encoding incl. core flag
        let c2 = k.fork_proc(P, 0, PKind::Child(1));
        k.proc_mut(c2).state = PState::Running;
        k.deliver(c2, libc::SIGTERM, Ent::Harness);
        sim.push(w(&mut k, c2, 0));
        let c3 = k.fork_proc(P, 0, PKind::Child(2));
        k.proc_mut(c3).state = PState::Running;
        k.deliver(c3, libc::SIGQUIT, Ent::Harness);
        sim.push(w(&mut k, c3, 0) & !0x80); // core flag depends on rlimits on the real side
        // an ignored signal does not kill; SIGKILL does
        let c4 = k.fork_proc(P, 0, PKind::Child(3));
        k.proc_mut(c4).state = PState::Running;
        k.proc_mut(c4).disp[libc::SIGTERM as usize] = Disp::Ignore;
        k.deliver(c4, libc::SIGTERM, Ent::Harness);
        sim.push(w(&mut k, c4, libc::WNOHANG));
        k.deliver(c4, libc::SIGKILL, Ent::Harness);
        sim.push(w(&mut k, c4, 0));
        // a stopped child is reported only with WUNTRACED, once; a continued one with WCONTINUED
        let c5 = k.fork_proc(P, 0, PKind::Child(4));
        k.proc_mut(c5).state = PState::Running;
        k.deliver(c5, libc::SIGSTOP, Ent::Harness);
        sim.push(w(&mut k, c5, libc::WNOHANG));
        sim.push(w(&mut k, c5, libc::WNOHANG | libc::WUNTRACED));
        sim.push(w(&mut k, c5, libc::WNOHANG | libc::WUNTRACED));
        k.deliver(c5, libc::SIGCONT, Ent::Harness);
        sim.push(w(&mut k, c5, libc::WNOHANG | libc::WCONTINUED));
        sim.push(w(&mut k, c5, libc::WNOHANG | libc::WCONTINUED | libc::WUNTRACED));
        k.deliver(c5, libc::SIGKILL, Ent::Harness);
        sim.push(w(&mut k, c5, 0));

        let mut real = vec![];
        unsafe {
            let rw = |pid: i32, fl: i32| -> i64 {
                let mut st = 0;
                let r = libc::waitpid(pid, &mut st, fl);
                if r < 0 {
                    -(*libc::__errno_location() as i64)
                } else if r == 0 {
                    0
                } else {
                    1_000_000 + st as i64
                }
            };
            let kill = |pid: i32, sig: i32| -> i64 {
                if libc::kill(pid, sig) < 0 {
                    -(*libc::__errno_location() as i64)
                } else {
                    0
                }
            };
            // child that waits for a byte then exits 7
            let (pr, pw) = Real::pipe();
            let c = libc::fork();
            if c == 0 {
                let mut b = [0u8; 1];
                libc::read(pr, b.as_mut_ptr() as *mut _, 1);
                libc::_exit(7);
            }
            real.push(rw(c, libc::WNOHANG));
            real.push(kill(c, 0));
            libc::write(pw, b"x".as_ptr() as *const _, 1);
            // wait until it is a zombie without reaping it
            let mut info: libc::siginfo_t = std::mem::zeroed();
            libc::waitid(libc::P_PID, c as u32, &mut info, libc::WEXITED | libc::WNOWAIT);
            real.push(kill(c, libc::SIGTERM));
            real.push(rw(c, libc::WNOHANG));
            real.push(rw(c, libc::WNOHANG));
            real.push(kill(c, 0));
            real.push(rw(1, libc::WNOHANG));
            Real::close(pr);
            Real::close(pw);
            let mk_pauser = |ignore_term: bool| -> i32 {
                // the child reports through a pipe when it is set up: no guessing with sleeps
                let mut ready = [0i32; 2];
                libc::pipe(ready.as_mut_ptr());
                let c = libc::fork();
                if c == 0 {
                    // never outlive the test, whatever happens to the signals
                    libc::alarm(60);
                    if ignore_term {
                        libc::signal(libc::SIGTERM, libc::SIG_IGN);
                    }
                    libc::close(ready[0]);
                    let b = [1u8];
                    libc::write(ready[1], b.as_ptr() as *const libc::c_void, 1);
                    libc::close(ready[1]);
                    loop {
                        libc::pause();
                    }
                }
                libc::close(ready[1]);
                let mut b = [0u8];
                libc::read(ready[0], b.as_mut_ptr() as *mut libc::c_void, 1);
                libc::close(ready[0]);
                c
            };
            let c2 = mk_pauser(false);
            kill(c2, libc::SIGTERM);
            real.push(rw(c2, 0));
            let c3 = mk_pauser(false);
            kill(c3, libc::SIGQUIT);
            real.push(rw(c3, 0) & !0x80);
            let c4 = mk_pauser(true);
            kill(c4, libc::SIGTERM);
            libc::usleep(20_000);
            real.push(rw(c4, libc::WNOHANG));
            kill(c4, libc::SIGKILL);
            real.push(rw(c4, 0));
            let c5 = mk_pauser(false);
            kill(c5, libc::SIGSTOP);
            // wait (bounded) until the stop has happened
            for _ in 0..6000 {
                let mut buf = [0u8; 256];
                let path = format!("/proc/{}/stat\0", c5);
                let fd = libc::open(path.as_ptr() as *const libc::c_char, libc::O_RDONLY);
                let n = if fd >= 0 { libc::read(fd, buf.as_mut_ptr() as *mut libc::c_void, 255) } else { 0 };
                if fd >= 0 {
                    libc::close(fd);
                }
                let txt = String::from_utf8_lossy(&buf[..n.max(0) as usize]).to_string();
                if txt.rsplit(')').next().map(|r| r.trim_start().starts_with('T')).unwrap_or(false) {
                    break;
                }
                libc::usleep(5_000);
            }
            real.push(rw(c5, libc::WNOHANG));
            real.push(rw(c5, libc::WNOHANG | libc::WUNTRACED));
            real.push(rw(c5, libc::WNOHANG | libc::WUNTRACED));
            kill(c5, libc::SIGCONT);
            libc::usleep(20_000);
            real.push(rw(c5, libc::WNOHANG | libc::WCONTINUED));
            real.push(rw(c5, libc::WNOHANG | libc::WCONTINUED | libc::WUNTRACED));
            kill(c5, libc::SIGKILL);
            real.push(rw(c5, 0));
        }
        out.push(Case { name: "waitpid_kill_zombie_reaped_echild_status_encoding", sim, real });
    }
    // credentials: setuid then setgid is refused, setgid then setuid works (needs root)
    unsafe {
        if libc::geteuid() == 0 {
            let mut k = sim_kernel();
            let mut sim = vec![];
            let c = k.fork_proc(P, 0, PKind::Child(0));
            let e = |r: Result<(), i32>| match r {
                Ok(()) => 0i64,
                Err(e) => -(e as i64),
            };
            sim.push(e(k.k_setuid(c, 1000)));
            sim.push(e(k.k_setgid(c, 1000)));
            sim.push(e(k.k_setuid(c, 0)));
            let c2 = k.fork_proc(P, 0, PKind::Child(1));
            sim.push(e(k.k_setgid(c2, 1000)));
            sim.push(e(k.k_setuid(c2, 1000)));
            sim.push(k.proc(c2).cred.egid as i64);
            sim.push(k.proc(c2).cred.euid as i64);
            sim.push(e(k.k_setgid(c2, 1000)));
            sim.push(e(k.k_setgid(c2, 5)));
            let mut real = vec![];
            let (pr, pw) = Real::pipe();
            let c = libc::fork();
            if c == 0 {
                let mut v: Vec<i64> = vec![];
                let er = |r: i32| if r < 0 { -(*libc::__errno_location() as i64) } else { 0 };
                v.push(er(libc::setuid(1000)));
                v.push(er(libc::setgid(1000)));
                v.push(er(libc::setuid(0)));
                libc::write(pw, v.as_ptr() as *const _, v.len() * 8);
                libc::_exit(0);
            }
            let mut st = 0;
            libc::waitpid(c, &mut st, 0);
            let c2 = libc::fork();
            if c2 == 0 {
                let mut v: Vec<i64> = vec![];
                let er = |r: i32| if r < 0 { -(*libc::__errno_location() as i64) } else { 0 };
                v.push(er(libc::setgid(1000)));
                v.push(er(libc::setuid(1000)));
                v.push(libc::getegid() as i64);
                v.push(libc::geteuid() as i64);
                v.push(er(libc::setgid(1000)));
                v.push(er(libc::setgid(5)));
                libc::write(pw, v.as_ptr() as *const _, v.len() * 8);
                libc::_exit(0);
            }
            libc::waitpid(c2, &mut st, 0);
            Real::close(pw);
            let mut buf = [0i64; 16];
            let n = libc::read(pr, buf.as_mut_ptr() as *mut _, 16 * 8);
            Real::close(pr);
            for i in 0..(n.max(0) as usize / 8) {
                real.push(buf[i]);
            }
            out.push(Case { name: "setuid_setgid_order_and_refusals", sim, real });
        }
    }
    out
}

pub fn run() -> (usize, Vec<String>) {
    // SIGPIPE is ignored by the Rust runtime, as in the simulated parent
    let mut cases: Vec<Case> = vec![];
    let cap = 65536usize;
    cases.push(pipe_case("empty_both_open", 0, 0, false, false));
    cases.push(pipe_case("data_writer_open", 100, 0, false, false));
    cases.push(pipe_case("data_writer_closed", 100, 0, false, true));
    cases.push(pipe_case("empty_writer_closed", 0, 0, false, true));
    cases.push(pipe_case("drained_writer_closed", 100, 100, false, true));
    cases.push(pipe_case("full_reader_open", cap, 0, false, false));
    cases.push(pipe_case("full_reader_closed", cap, 0, true, false));
    cases.push(pipe_case("empty_reader_closed", 0, 0, true, false));
    cases.push(pipe_case("data_reader_closed", 5000, 0, true, false));
    cases.push(pipe_case("one_page_free", cap - 4096, 0, false, false));
    cases.push(pipe_case("less_than_a_page_free", cap - 4096 + 1, 0, false, false));
    cases.push(pipe_case("full_then_one_page_drained", cap, 4096, false, false));
    cases.push(pipe_case("full_then_one_byte_drained", cap, 1, false, false));
    cases.push(pipe_case("full_then_page_minus_one_drained", cap, 4095, false, false));
    cases.push(pipe_case("full_then_half_drained", cap, cap / 2, false, false));
    cases.push(pipe_case("full_then_all_drained", cap, cap, false, false));
    cases.push(pipe_case("full_drained_writer_closed", cap, cap, false, true));
    cases.push(pipe_case("full_half_drained_writer_closed", cap, cap / 2, false, true));
    cases.extend(fd_cases());
    cases.extend(proc_cases());
    let mut bad = vec![];
    for c in &cases {
        if c.sim != c.real {
            bad.push(format!("{}: simulated {:?} vs real kernel {:?}", c.name, c.sim, c.real));
        }
    }
    (cases.len(), bad)
}

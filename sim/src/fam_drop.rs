//! Family `drop`: handles clean up after themselves (C12).

use crate::api::*;
use crate::kernel::*;
use crate::plan::*;
use crate::prog::Op;
use crate::rng::Rng;
use crate::runner::FamOut;
use crate::sim::sim;
use serde::{Deserialize, Serialize};
use std::io::{Read, Write};
use subprocess::{Exec, Pipeline, Popen, PopenConfig, Redirection};

#[derive(Serialize, Deserialize, Clone, Copy, Debug, PartialEq, Eq)]
pub enum Owner {
    Popen,
    Join,
    Capture,
    StreamStdout,
    StreamStderr,
    StreamStdin,
    PipeStreamStdout,
    PipeStreamStdin,
    PipeJoin,
    PipeCapture,
}

#[derive(Serialize, Deserialize, Clone, Debug)]
pub struct DropPlan {
    pub owner: Owner,
    pub detached: bool,
    /// bytes read from / written to the adapter before it is dropped (None = until EOF / everything)
    pub consume: Option<usize>,
    pub progs: Vec<String>,
    pub input_len: usize,
    /// plain Popen: which streams are piped
    pub pipes: [bool; 3],
    /// the command (or pipeline) actually run is a clone() of the configured one
    #[serde(default)]
    pub via_clone: bool,
    /// the handle is dropped by a panic unwinding through the caller's scope (caught further up)
    #[serde(default)]
    pub by_panic: bool,
    /// plain, non-detached Popen: what the caller does with the handle before letting it go
    /// (0 nothing, 1 kill(), 2 terminate(), 3 kill() then wait(), 4 poll(), 5 kill() then poll())
    #[serde(default)]
    pub before_drop: u8,
}

impl Default for DropPlan {
    fn default() -> Self {
        DropPlan { owner: Owner::Popen, detached: false, consume: None, progs: vec![], input_len: 0, pipes: [false; 3], via_clone: false, by_panic: false, before_drop: 0 }
    }
}

fn child_for(rng: &mut Rng, cap: usize, reads_stdin: bool, out_fd: i32, finite: bool) -> Vec<Op> {
    let mut ops = vec![];
    let chunk = *rng.pick(&[1usize, 512, 4096, 65536]);
    match rng.below(7) {
        0 => ops.push(Op::Exit { code: rng.below(3) as i32 }),
        1 => {
            // more than a pipe holds
            ops.push(Op::Write { fd: out_fd, stream: 1, len: cap + 1 + rng.below(100_000) as usize, chunk: chunk.max(512) });
        }
        2 if !finite => ops.push(Op::Flood { fd: out_fd, stream: 1, chunk: 4096, max: 1 << 30 }),
        3 => {
            ops.push(Op::Write { fd: out_fd, stream: 1, len: rng.below(5000) as usize, chunk: chunk.max(64) });
            ops.push(Op::Sleep { ns: rng.range(0, 20_000_000_000) });
        }
        4 => {
            ops.push(Op::Sleep { ns: rng.range(0, 3_000_000_000) });
            ops.push(Op::Write { fd: out_fd, stream: 1, len: rng.below(200_000) as usize, chunk: chunk.max(512) });
        }
        _ => {
            ops.push(Op::Write { fd: out_fd, stream: 1, len: rng.below(70_000) as usize, chunk: chunk.max(64) });
        }
    }
    if reads_stdin && rng.chance(3, 4) {
        let at = rng.below(ops.len() as u64 + 1) as usize;
        ops.insert(at, Op::ReadAll { fd: 0, chunk: 4096 });
    }
    if rng.chance(1, 3) {
        ops.push(Op::Exit { code: rng.below(5) as i32 });
    }
    ops
}

pub fn generate(rng: &mut Rng, plan: &mut Plan, _index: u64) {
    let cap = plan.knobs.pipe_caps[0];
    let mut d = DropPlan::default();
    d.owner = *rng.pick(&[
        Owner::Popen,
        Owner::Popen,
        Owner::Join,
        Owner::Capture,
        Owner::StreamStdout,
        Owner::StreamStdout,
        Owner::StreamStderr,
        Owner::StreamStdin,
        Owner::PipeStreamStdout,
        Owner::PipeStreamStdin,
        Owner::PipeJoin,
        Owner::PipeCapture,
    ]);
    d.detached = rng.chance(1, 5);
    d.via_clone = rng.chance(1, 4);
    d.by_panic = rng.chance(1, 6);
    if d.owner == Owner::Popen && !d.detached && rng.chance(1, 3) {
        d.before_drop = 1 + rng.below(5) as u8;
        if rng.chance(1, 2) {
            plan.knobs.faults.kill_lag_ns = *rng.pick(&[20_000u64, 2_000_000, 300_000_000]);
            plan.knobs.batch = "faulty".into();
        }
    }
    d.consume = match rng.below(4) {
        0 => Some(0),
        1 => Some(1 + rng.below(5000) as usize),
        2 => Some(rng.below(200_000) as usize),
        _ => None,
    };
    let nstages = match d.owner {
        Owner::PipeStreamStdout | Owner::PipeStreamStdin | Owner::PipeJoin | Owner::PipeCapture => 2 + rng.below(2) as usize,
        _ => 1,
    };
    d.input_len = gen_len(rng, cap, false).min(300_000);
    for i in 0..nstages {
        let last = i + 1 == nstages;
        let ops = match d.owner {
            Owner::Popen => {
                d.pipes = [rng.chance(1, 2), rng.chance(1, 2), rng.chance(1, 3)];
                let ofd = if rng.chance(1, 4) { 2 } else { 1 };
                child_for(rng, cap, d.pipes[0], ofd, false)
            }
            Owner::Join | Owner::PipeJoin => {
                if i == 0 {
                    let mut o = child_for(rng, cap, false, 1, true);
                    if !last {
                        o.retain(|op| !matches!(op, Op::Exit { .. }));
                    }
                    o
                } else {
                    vec![Op::ReadAll { fd: 0, chunk: 4096 }, Op::Sleep { ns: rng.range(0, 2_000_000_000) }, Op::Exit { code: rng.below(4) as i32 }]
                }
            }
            Owner::Capture | Owner::PipeCapture => {
                if i == 0 {
                    child_for(rng, cap, true, 1, true)
                } else {
                    vec![Op::Cat { inp: 0, out: 1, chunk: 4096 }, Op::Exit { code: rng.below(4) as i32 }]
                }
            }
            Owner::StreamStdout | Owner::PipeStreamStdout => {
                if last {
                    let mut o = if i == 0 { child_for(rng, cap, false, 1, false) } else { vec![Op::Cat { inp: 0, out: 1, chunk: 4096 }] };
                    if i > 0 && rng.chance(1, 2) {
                        o = vec![Op::ReadN { fd: 0, total: 100, chunk: 100 }, Op::Flood { fd: 1, stream: 3, chunk: 4096, max: 1 << 30 }];
                    }
                    o
                } else {
                    child_for(rng, cap, false, 1, false)
                }
            }
            Owner::StreamStderr => child_for(rng, cap, false, 2, false),
            Owner::StreamStdin | Owner::PipeStreamStdin => {
                if i == 0 {
                    // waits for end-of-file on its stdin
                    let mut o = vec![Op::ReadAll { fd: 0, chunk: *rng.pick(&[1usize, 4096, 65536]) }];
                    if !last {
                        o = vec![Op::Cat { inp: 0, out: 1, chunk: 4096 }];
                    }
                    if rng.chance(1, 3) {
                        o.push(Op::Sleep { ns: rng.range(0, 1_000_000_000) });
                    }
                    o
                } else {
                    vec![Op::ReadAll { fd: 0, chunk: 4096 }, Op::Exit { code: rng.below(3) as i32 }]
                }
            }
        };
        let name = format!("d{}", i);
        plan.add_program(&name, ops);
        d.progs.push(name);
    }
    // a signal (handler installed by the application) arrives while the parent is blocked
    if rng.chance(1, 4) {
        let mask = *rng.pick(&[1u8, 4, 4, 7, 7]);
        plan.knobs.faults.eintr = Some((1 + rng.below(4) as u32, 1 + rng.below(3) as u32, mask));
        plan.knobs.batch = "faulty".into();
    }
    // somebody else in the process (a SIGCHLD handler, another library) reaps children
    if rng.chance(1, 6) {
        plan.knobs.faults.foreign_reap = true;
        plan.knobs.env_reaps = 1 + rng.below(2) as u32;
        plan.knobs.batch = "faulty".into();
    }
    // a parent that runs with some standard descriptors closed
    if rng.chance(1, 8) {
        plan.parent.closed_std = 1 + rng.below(7) as u8;
        plan.parent.files_low = rng.chance(1, 2);
    }
    plan.body = Body::Drop(d);
}

fn children_state(ctx: &str, detached: bool, n: usize, drop_only: bool) {
    let s = sim();
    for i in 0..n {
        // every process started by the handle
        for c in s.k.procs.values().filter(|c| c.kind == PKind::Child(i)) {
            if detached {
                continue;
            }
            match c.state {
                PState::Zombie { .. } => violate("zombie_left", format!("zombie_left/detached=false/cause={}", ctx), format!("{}: child {} (stage {}) is a zombie after the handle is gone", ctx, c.pid, i)),
                _ => violate("orphan_left", format!("orphan_left/owner={}", ctx), format!("{}: child {} (stage {}) is still running un-waited after the handle is gone ({:?})", ctx, c.pid, i, c.state)),
            }
        }
        if detached && drop_only {
            // a detached drop never reaps
            if let Some(g) = s.k.graveyard.iter().find(|c| c.kind == PKind::Child(i) && matches!(c.reaped_by, Some(Ent::Par(_)))) {
                let _ = g;
                violate("detached_waited", "detached_waited/reaped".into(), format!("{}: a detached handle reaped child (stage {})", ctx, i));
            }
        }
    }
}

pub fn run(_plan: &Plan, d: &DropPlan) -> FamOut {
    let n = d.progs.len();
    let exec = |i: usize| {
        let mut e = Exec::cmd(format!("/bin/{}", d.progs[i]));
        if d.detached {
            e = e.detached();
        }
        if d.via_clone {
            e = e.clone();
        }
        e
    };
    let pipeline = || {
        let cmds: Vec<Exec> = (0..n).map(exec).collect();
        let p = Pipeline::from_exec_iter(cmds);
        if d.via_clone {
            p.clone()
        } else {
            p
        }
    };
    let owner = format!("{:?}", d.owner);
    let input = crate::fam_comm::input_bytes(d.input_len, false);
    let mut buf = vec![0u8; 65536];
    // read adapter driver: read `consume` bytes (or to EOF) then drop
    macro_rules! drive_reader {
        ($r:expr, $label:expr) => {{
            match $r {
                Err(pm) => violate("panic", format!("panic/in={}", $label), pm),
                Ok(Err(e)) if is_eintr(&e) && eintr_fired() => sim().k.probe("call_failed_with_eintr"),
                Ok(Err(e)) => violate("spawn_failed", format!("spawn_failed/{:?}", e), format!("{} failed: {:?}", $label, e)),
                Ok(Ok(mut rd)) => {
                    let mut got = 0usize;
                    loop {
                        let want = match d.consume {
                            Some(c) if got >= c => break,
                            Some(c) => (c - got).min(buf.len()),
                            None => buf.len(),
                        };
                        let r = lib("adapter.read", || rd.read(&mut buf[..want]));
                        match r {
                            Ok(Ok(0)) | Ok(Err(_)) | Err(_) => break,
                            Ok(Ok(k)) => got += k,
                        }
                        if sim().poisoned.is_some() || got > (2 << 20) {
                            break;
                        }
                    }
                    let w0 = sim().k.wait_log.len();
                    let b0 = seq();
                    let _ = if d.by_panic { lib_drop_unwinding(&format!("drop({})", $label), rd) } else { lib_drop(&format!("drop({})", $label), rd) };
                    judge_detached(d.detached, w0, b0, &owner);
                }
            }
        }};
    }
    macro_rules! drive_writer {
        ($w:expr, $label:expr) => {{
            match $w {
                Err(pm) => violate("panic", format!("panic/in={}", $label), pm),
                Ok(Err(e)) if is_eintr(&e) && eintr_fired() => sim().k.probe("call_failed_with_eintr"),
                Ok(Err(e)) => violate("spawn_failed", format!("spawn_failed/{:?}", e), format!("{} failed: {:?}", $label, e)),
                Ok(Ok(mut wr)) => {
                    let total = d.consume.unwrap_or(input.len()).min(input.len());
                    let mut off = 0;
                    while off < total {
                        let end = (off + 4096).min(total);
                        let r = lib("adapter.write", || wr.write(&input[off..end]));
                        match r {
                            Ok(Ok(k)) if k > 0 => off += k,
                            _ => break,
                        }
                        if sim().poisoned.is_some() {
                            break;
                        }
                    }
                    let w0 = sim().k.wait_log.len();
                    let b0 = seq();
                    let _ = if d.by_panic { lib_drop_unwinding(&format!("drop({})", $label), wr) } else { lib_drop(&format!("drop({})", $label), wr) };
                    judge_detached(d.detached, w0, b0, &owner);
                }
            }
        }};
    }
    match d.owner {
        Owner::Popen => {
            let r = |b: bool| if b { Redirection::Pipe } else { Redirection::None };
            let cfg = PopenConfig { stdin: r(d.pipes[0]), stdout: r(d.pipes[1]), stderr: r(d.pipes[2]), detached: d.detached, ..Default::default() };
            let path = format!("/bin/{}", d.progs[0]);
            match lib("Popen::create", || Popen::create(&[path.as_str()], cfg)) {
                Err(pm) => violate("panic", "panic/in=Popen::create".into(), pm),
                Ok(Err(e)) if is_eintr(&e) && eintr_fired() => sim().k.probe("call_failed_with_eintr"),
                Ok(Err(e)) => violate("spawn_failed", format!("spawn_failed/{:?}", e), format!("Popen::create failed: {:?}", e)),
                Ok(Ok(mut p)) => {
                    // the caller releases what it can release
                    drop(p.stdin.take());
                    drop(p.stdout.take());
                    drop(p.stderr.take());
                    // whatever was done with the handle before: once it is gone, the child has been reaped
                    match d.before_drop {
                        1 | 3 | 5 => {
                            let _ = lib("Popen::kill", || p.kill());
                        }
                        2 => {
                            let _ = lib("Popen::terminate", || p.terminate());
                        }
                        4 => {
                            let _ = lib("Popen::poll", || p.poll());
                        }
                        _ => {}
                    }
                    match d.before_drop {
                        3 => {
                            let _ = lib("Popen::wait", || p.wait());
                        }
                        5 => {
                            let _ = lib("Popen::poll", || p.poll());
                        }
                        _ => {}
                    }
                    if d.before_drop != 0 {
                        sim().k.probe("handle_used_before_drop");
                    }
                    let w0 = sim().k.wait_log.len();
                    let b0 = seq();
                    let _ = if d.by_panic { lib_drop_unwinding("drop(Popen)", p) } else { lib_drop("drop(Popen)", p) };
                    judge_detached(d.detached, w0, b0, &owner);
                }
            }
        }
        Owner::Join => {
            let e = exec(0);
            match lib("Exec::join", || e.join()) {
                Err(pm) => violate("panic", "panic/in=Exec::join".into(), pm),
                Ok(Err(e)) if is_eintr(&e) && eintr_fired() => sim().k.probe("call_failed_with_eintr"),
                Ok(Err(e)) => violate("spawn_failed", format!("spawn_failed/{:?}", e), format!("join failed: {:?}", e)),
                Ok(Ok(_)) => {}
            }
        }
        Owner::PipeJoin => {
            let p = pipeline();
            match lib("Pipeline::join", || p.join()) {
                Err(pm) => violate("panic", "panic/in=Pipeline::join".into(), pm),
                Ok(Err(e)) if is_eintr(&e) && eintr_fired() => sim().k.probe("call_failed_with_eintr"),
                Ok(Err(e)) => violate("spawn_failed", format!("spawn_failed/{:?}", e), format!("join failed: {:?}", e)),
                Ok(Ok(_)) => {}
            }
        }
        Owner::Capture => {
            let e = exec(0).stdin(input.clone());
            match lib("Exec::capture", || e.capture()) {
                Err(pm) => violate("panic", "panic/in=Exec::capture".into(), pm),
                Ok(_) => {}
            }
        }
        Owner::PipeCapture => {
            let p = pipeline().stdin(input.clone());
            match lib("Pipeline::capture", || p.capture()) {
                Err(pm) => violate("panic", "panic/in=Pipeline::capture".into(), pm),
                Ok(_) => {}
            }
        }
        Owner::StreamStdout => {
            let e = exec(0);
            drive_reader!(lib("Exec::stream_stdout", || e.stream_stdout()), "ReadOutAdapter");
        }
        Owner::StreamStderr => {
            let e = exec(0);
            drive_reader!(lib("Exec::stream_stderr", || e.stream_stderr()), "ReadErrAdapter");
        }
        Owner::PipeStreamStdout => {
            let p = pipeline();
            drive_reader!(lib("Pipeline::stream_stdout", || p.stream_stdout()), "ReadPipelineAdapter");
        }
        Owner::StreamStdin => {
            let e = exec(0);
            drive_writer!(lib("Exec::stream_stdin", || e.stream_stdin()), "WriteAdapter");
        }
        Owner::PipeStreamStdin => {
            let p = pipeline();
            drive_writer!(lib("Pipeline::stream_stdin", || p.stream_stdin()), "WritePipelineAdapter");
        }
    }
    if sim().poisoned.is_none() {
        children_state(&owner, d.detached, n, !matches!(d.owner, Owner::Join | Owner::Capture | Owner::PipeJoin | Owner::PipeCapture));
    }
    let nontrivial = sim().k.pipes.iter().any(|p| p.was_full) || sim().k.procs.values().any(|c| c.pid != PARENT_PID) || d.consume.is_some();
    kill_all_children();
    FamOut { nontrivial }
}

/// A detached drop must not wait and must not block.
fn judge_detached(detached: bool, w0: usize, b0: u64, owner: &str) {
    if !detached {
        return;
    }
    let s = sim();
    let t = me();
    let waited = s.k.wait_log.len() > w0;
    let blocked = s.k.log.iter().rev().take_while(|e| e.seq > b0).any(|e| e.who == Ent::Par(t) && e.call == Call::Blocked);
    if waited || blocked {
        violate("detached_waited", format!("detached_waited/owner={}/waitpid={}/blocked={}", owner, waited, blocked), format!("dropping the detached {} issued waitpid: {}, blocked: {}", owner, waited, blocked));
    }
}

//! One simulation run: kernel + seeded scheduler + parent-thread registry
//! (baton) + poison/violation bookkeeping.

use crate::kernel::*;
use crate::rng::Rng;
use serde::{Deserialize, Serialize};
use std::cell::Cell;
use std::sync::atomic::{AtomicBool, AtomicPtr, Ordering};
use std::sync::{Arc, Condvar, Mutex};

#[derive(Clone, Debug, Serialize, Deserialize, PartialEq, Eq)]
pub struct Violation {
    pub oracle: String,
    pub signature: String,
    pub message: String,
}

pub struct Baton {
    m: Mutex<bool>,
    c: Condvar,
}

impl Baton {
    pub fn new() -> Arc<Baton> {
        Arc::new(Baton { m: Mutex::new(false), c: Condvar::new() })
    }
    pub fn give(&self) {
        let mut g = self.m.lock().unwrap();
        *g = true;
        self.c.notify_one();
    }
    pub fn take(&self) {
        let mut g = self.m.lock().unwrap();
        while !*g {
            g = self.c.wait(g).unwrap();
        }
        *g = false;
    }
}

#[derive(Clone, Debug)]
pub enum Wait {
    Readable(usize),
    Writable(usize, usize),
    Poll(Vec<(i32, i16)>),
    /// waitpid(pid, flags) that found nothing to report
    Child(i32, i32),
    Timer,
    ThreadDone(u8),
    /// rendezvous channel (simrt): receiver waits for a sender, sender waits for a receiver
    ChanRecv(usize),
    ChanSend(usize, u64),
    /// harness-level: wait until process `pid` is not alive
    ProcGone(i32),
    /// never ready by itself (only the deadline ends it)
    Never,
}

#[derive(Clone, Debug, PartialEq)]
pub enum TState {
    /// parked at a pre-emption point, may run
    Runnable,
    Running,
    Blocked,
    Done,
}

pub struct ParThread {
    pub state: TState,
    pub wait: Option<Wait>,
    pub deadline: Option<u64>,
    pub baton: Arc<Baton>,
    pub spin: u32,
    pub last_gen: u64,
    pub blocked_since: bool,
    /// label of the library call in progress
    pub lib_label: Option<String>,
    pub lib_calls: u64,
    pub cur_call: Call,
}

#[derive(Clone, Copy, Debug, Serialize, Deserialize, PartialEq, Eq)]
pub enum Personality {
    ParentGreedy,
    ChildGreedy,
    Uniform,
    Bursty,
}

pub struct Choices {
    pub rng: Rng,
    pub replay: Option<Vec<u32>>,
    pub pos: usize,
    pub taken: Vec<u32>,
    pub record_cap: usize,
}

impl Choices {
    pub fn new(seed: u64, replay: Option<Vec<u32>>) -> Choices {
        Choices { rng: Rng::new(seed), replay, pos: 0, taken: vec![], record_cap: 200_000 }
    }
    /// uniform in 0..n; 0 is always the benign default
    pub fn choose(&mut self, n: usize) -> usize {
        if n <= 1 {
            return 0;
        }
        let v = match &self.replay {
            Some(list) => {
                let v = list.get(self.pos).cloned().unwrap_or(0) as usize;
                if v >= n {
                    v % n
                } else {
                    v
                }
            }
            None => self.rng.below(n as u64) as usize,
        };
        self.pos += 1;
        if self.taken.len() < self.record_cap {
            self.taken.push(v as u32);
        }
        v
    }
}

pub struct Sim {
    pub k: Kernel,
    pub ch: Choices,
    pub personality: Personality,
    pub cost_ns: u64,
    pub poisoned: Option<String>,
    pub violations: Vec<Violation>,
    pub harness_error: Option<String>,
    pub threads: Vec<ParThread>,
    pub steps: u64,
    pub step_cap: u64,
    pub poison_calls: u64,
    pub env_reaps_left: u32,
    pub env_spawns_left: u32,
    /// rendezvous channels for simrt
    pub chans: Vec<crate::simrt::ChanState>,
    pub stalled_ns: u64,
    pub late_ns: u64,
    /// helper threads of this run are "fast": at an expired receive deadline they get to run as far
    /// as they can before the receiver looks at the channel for the last time (drawn once per run)
    pub helpers_fast: Option<bool>,
    pub sched_switches: u64,
    pub deadline_probe: Vec<(u64, u64)>,
    pub handoff_depth: u32,
}

static SIM: AtomicPtr<Sim> = AtomicPtr::new(std::ptr::null_mut());
/// bumped at every scheduling point; a run whose counter stands still in real time is spinning without system calls
pub static PROGRESS: std::sync::atomic::AtomicU64 = std::sync::atomic::AtomicU64::new(0);
pub static FORKED: AtomicBool = AtomicBool::new(false);

thread_local! {
    /// 0 = not registered, t+1 = parent thread t
    pub static CTX: Cell<u32> = const { Cell::new(0) };
}

pub fn install(s: Box<Sim>) {
    let old = SIM.swap(Box::into_raw(s), Ordering::SeqCst);
    assert!(old.is_null(), "a simulation is already installed");
}

pub fn uninstall() -> Box<Sim> {
    let p = SIM.swap(std::ptr::null_mut(), Ordering::SeqCst);
    assert!(!p.is_null());
    unsafe { Box::from_raw(p) }
}

/// The running simulation. Only the baton holder may call this.
#[allow(clippy::mut_from_ref)]
pub fn sim() -> &'static mut Sim {
    let p = SIM.load(Ordering::Relaxed);
    assert!(!p.is_null(), "no simulation installed");
    unsafe { &mut *p }
}

pub fn sim_installed() -> bool {
    !SIM.load(Ordering::Relaxed).is_null()
}

pub fn cur_thread() -> Option<u8> {
    let c = CTX.with(|c| c.get());
    if c == 0 {
        None
    } else {
        Some((c - 1) as u8)
    }
}

impl Sim {
    pub fn new(k: Kernel, sched_seed: u64, replay: Option<Vec<u32>>, personality: Personality, cost_ns: u64) -> Sim {
        Sim {
            k,
            ch: Choices::new(sched_seed, replay),
            personality,
            cost_ns,
            poisoned: None,
            violations: vec![],
            harness_error: None,
            threads: vec![],
            steps: 0,
            step_cap: 3_000_000,
            poison_calls: 0,
            env_reaps_left: 0,
            env_spawns_left: 0,
            chans: vec![],
            stalled_ns: 0,
            late_ns: 0,
            helpers_fast: None,
            sched_switches: 0,
            deadline_probe: vec![],
            handoff_depth: 0,
        }
    }

    pub fn violate(&mut self, oracle: &str, signature: String, message: String) {
        if self.violations.len() < 32 {
            self.violations.push(Violation { oracle: oracle.to_string(), signature, message });
        }
    }

    pub fn poison(&mut self, why: &str) {
        if self.poisoned.is_none() {
            self.poisoned = Some(why.to_string());
        }
    }

    pub fn add_thread(&mut self) -> u8 {
        let t = self.threads.len();
        assert!(t < 8, "too many parent threads");
        self.threads.push(ParThread {
            state: TState::Runnable,
            wait: None,
            deadline: None,
            baton: Baton::new(),
            spin: 0,
            last_gen: u64::MAX,
            blocked_since: false,
            lib_label: None,
            lib_calls: 0,
            cur_call: Call::Other,
        });
        t as u8
    }

    pub fn wait_ready(&self, w: &Wait) -> bool {
        match w {
            Wait::Readable(d) => self.k.readable(*d),
            Wait::Writable(d, n) => self.k.writable(*d, *n),
            Wait::Poll(v) => v.iter().any(|(fd, ev)| self.k.poll_revents(PARENT_PID, *fd, *ev) != 0),
            Wait::Child(pid, flags) => {
                let pid = *pid;
                let flags = *flags;
                let mut any = false;
                for p in self.k.procs.values() {
                    if p.ppid == PARENT_PID && (pid == -1 || pid == 0 || p.pid == pid) {
                        any = true;
                        if matches!(p.state, PState::Zombie { .. }) || (flags & libc::WUNTRACED != 0 && p.stopped && p.stop_unreported != 0) || (flags & libc::WCONTINUED != 0 && p.cont_unreported) {
                            return true;
                        }
                    }
                }
                !any // ECHILD: returns at once
            }
            Wait::Timer | Wait::Never => false,
            Wait::ThreadDone(u) => self.threads[*u as usize].state == TState::Done,
            Wait::ChanRecv(c) => self.chans[*c].recv_ready(),
            Wait::ChanSend(c, ticket) => self.chans[*c].send_ready(*ticket),
            Wait::ProcGone(pid) => !self.k.procs.get(pid).map(|p| p.alive()).unwrap_or(false),
        }
    }

    pub fn thread_enabled_pub(&self, u: usize) -> bool {
        self.thread_enabled(u)
    }

    fn thread_enabled(&self, u: usize) -> bool {
        let th = &self.threads[u];
        if self.poisoned.is_some() {
            return th.state == TState::Runnable || th.state == TState::Blocked;
        }
        match th.state {
            TState::Runnable => true,
            TState::Blocked => {
                if let Some(w) = &th.wait {
                    if self.wait_ready(w) {
                        return true;
                    }
                }
                if let Some(d) = th.deadline {
                    if self.k.now >= d {
                        return true;
                    }
                }
                false
            }
            _ => false,
        }
    }

    pub fn enabled_others(&self, me: Option<u8>) -> Vec<Ent> {
        let mut v = vec![];
        for (pid, _) in self.k.procs.iter() {
            if *pid != PARENT_PID && self.k.proc_enabled(*pid) {
                v.push(Ent::Proc(*pid));
            }
        }
        for u in 0..self.threads.len() {
            if Some(u as u8) != me && self.thread_enabled(u) {
                v.push(Ent::Par(u as u8));
            }
        }
        if self.env_enabled() {
            v.push(Ent::Env);
        }
        v
    }

    fn env_enabled(&self) -> bool {
        if self.k.faults.foreign_reap && self.env_reaps_left > 0 {
            if self.k.procs.values().any(|p| p.ppid == PARENT_PID && matches!(p.kind, PKind::Child(_)) && matches!(p.state, PState::Zombie { .. })) {
                return true;
            }
        }
        if self.k.faults.bystanders && self.env_spawns_left > 0 {
            return true;
        }
        false
    }

    fn env_step(&mut self) {
        // foreign reaper first, then bystander creation
        if self.k.faults.foreign_reap && self.env_reaps_left > 0 {
            let z: Vec<i32> = self
                .k
                .procs
                .values()
                .filter(|p| p.ppid == PARENT_PID && matches!(p.kind, PKind::Child(_)) && matches!(p.state, PState::Zombie { .. }))
                .map(|p| p.pid)
                .collect();
            if !z.is_empty() {
                let pid = z[self.ch.choose(z.len())];
                self.env_reaps_left -= 1;
                self.k.reap(pid, Ent::Env);
                self.k.fcount.hit("foreign_reap");
                self.k.ev(Ent::Env, Call::EnvReap, [pid as i64, 0, 0], 0);
                return;
            }
        }
        if self.k.faults.bystanders && self.env_spawns_left > 0 {
            self.env_spawns_left -= 1;
            let pid = self.k.fork_proc(PARENT_PID, 0, PKind::Bystander);
            // a bystander holds no descriptors of the parent and sleeps a long time
            let fds: Vec<i32> = self.k.proc(pid).fds.keys().cloned().collect();
            for fd in fds {
                let _ = self.k.k_close(pid, fd);
            }
            let p = self.k.proc_mut(pid);
            p.ppid = 1;
            p.prog = vec![crate::prog::Op::Sleep { ns: 400 * 86_400 * 1_000_000_000 }];
            p.state = PState::Running;
            let reused = self.k.graveyard.iter().any(|g| g.pid == pid && matches!(g.kind, PKind::Child(_)));
            if reused {
                self.k.fcount.hit("pid_reuse");
            }
            self.k.ev(Ent::Env, Call::EnvSpawn, [pid as i64, reused as i64, 0], 0);
        }
    }

    /// Run one step of a non-thread entity.
    pub fn step_entity(&mut self, e: Ent) {
        PROGRESS.fetch_add(1, Ordering::Relaxed);
        self.steps += 1;
        match e {
            Ent::Proc(pid) => {
                if self.k.proc(pid).state == PState::PreExec {
                    crate::interpose::apply_preexec(self, pid);
                    self.k.ev(e, Call::Exec, [pid as i64, 0, 0], 0);
                } else {
                    self.k.step_proc(pid);
                    self.k.ev(e, Call::ProcStep, [pid as i64, 0, 0], 0);
                    if let Some((idx, after, sig)) = self.k.faults.child_death {
                        if let Some(p) = self.k.procs.get(&pid) {
                            if p.kind == PKind::Child(idx as usize) && p.alive() && p.steps == after {
                                self.k.fcount.hit("child_death");
                                self.k.deliver(pid, sig, Ent::Env);
                            }
                        }
                    }
                }
            }
            Ent::Env => self.env_step(),
            _ => unreachable!(),
        }
    }

    pub fn next_timer(&self, me: Option<u8>, my_deadline: Option<u64>) -> Option<u64> {
        let mut t = my_deadline;
        let mut upd = |x: Option<u64>| {
            if let Some(x) = x {
                t = Some(match t {
                    None => x,
                    Some(y) => y.min(x),
                });
            }
        };
        upd(self.k.next_proc_timer());
        for (u, th) in self.threads.iter().enumerate() {
            if Some(u as u8) != me && th.state == TState::Blocked {
                upd(th.deadline);
            }
        }
        t
    }

    pub fn describe_block(&self) -> String {
        let mut s = String::new();
        for (u, th) in self.threads.iter().enumerate() {
            s.push_str(&format!(
                "thread{} {:?} in {:?} call={:?} wait={:?}; ",
                u, th.state, th.lib_label, th.cur_call, th.wait
            ));
        }
        for p in self.k.procs.values() {
            if p.pid == PARENT_PID {
                continue;
            }
            s.push_str(&format!("proc{}({:?}) {:?} next={:?}; ", p.pid, p.kind, p.state, if p.state == PState::Running { Some(self.k.next_call(p.pid)) } else { None }));
        }
        s
    }
}

/// how many steps of other entities run before a parent call is served
fn preempt_budget(s: &mut Sim) -> usize {
    let r = s.ch.choose(100);
    match s.personality {
        Personality::ParentGreedy => {
            if r >= 92 {
                1 + (r - 92)
            } else {
                0
            }
        }
        Personality::ChildGreedy => {
            if r >= 15 {
                100_000
            } else if r >= 8 {
                r
            } else {
                0
            }
        }
        Personality::Uniform => {
            if r >= 40 {
                (r - 40) / 12
            } else {
                0
            }
        }
        Personality::Bursty => {
            if r >= 90 {
                100_000
            } else if r >= 60 {
                r - 58
            } else {
                0
            }
        }
    }
}

pub fn switch_pub(me: u8, u: u8) {
    switch_to(me, u)
}

fn switch_to(me: u8, u: u8) {
    let (mine, theirs) = {
        let s = sim();
        s.sched_switches += 1;
        (s.threads[me as usize].baton.clone(), s.threads[u as usize].baton.clone())
    };
    if crate::api::DEBUG.load(Ordering::Relaxed) {
        let st: Vec<String> = sim().threads.iter().map(|t| format!("{:?}", t.state)).collect();
        crate::interpose::raw_write(2, format!("[switch] {} -> {} states={:?}\n", me, u, st).as_bytes());
    }
    theirs.give();
    mine.take();
    let s = sim();
    s.threads[me as usize].state = TState::Running;
}

/// Called at the start of every interposed call of parent thread `t`.
pub fn par_enter(t: u8, call: Call) {
    PROGRESS.fetch_add(1, Ordering::Relaxed);
    {
        let s = sim();
        s.steps += 1;
        s.threads[t as usize].cur_call = call;
        if s.poisoned.is_some() {
            s.poison_calls += 1;
            return;
        }
        if s.steps > s.step_cap {
            s.harness_error = Some(format!("step cap exceeded ({})", s.step_cap));
            s.poison("step_cap");
            return;
        }
        s.k.now = s.k.now.saturating_add(s.cost_ns);
        // spin detection
        let in_lib = s.k.in_lib[t as usize];
        let gen = s.k.gen;
        let th = &mut s.threads[t as usize];
        if in_lib && th.last_gen == gen && !th.blocked_since {
            th.spin += 1;
        } else {
            th.spin = 0;
        }
        th.last_gen = gen;
        th.blocked_since = false;
        if th.spin >= 1000 {
            let label = th.lib_label.clone().unwrap_or_default();
            let msg = format!("1000 consecutive non-blocking calls of the parent without any kernel state change inside {} (last call {:?}); {}", label, call, s.describe_block());
            s.violate("spin", format!("spin/in={}/call={:?}", label, call), msg);
            s.poison("spin");
            return;
        }
        // stall fault
        if s.k.faults.stall_pm > 0 {
            let r = s.ch.choose(1000);
            if r >= 1000 - s.k.faults.stall_pm as usize {
                let table = [1_000_000u64, 10_000_000, 100_000_000, 1_000_000_000, 10_000_000_000];
                let d = table[s.ch.choose(table.len())];
                s.k.now = s.k.now.saturating_add(d);
                s.stalled_ns += d;
                s.k.fcount.hit("stall");
                s.k.ev(Ent::Par(t), Call::Stall, [d as i64, 0, 0], 0);
            }
        }
    }
    // pre-emption by simulated processes / the environment
    let mut budget = preempt_budget(sim());
    while budget > 0 {
        budget -= 1;
        let s = sim();
        if s.poisoned.is_some() {
            return;
        }
        let en: Vec<Ent> = s.enabled_others(Some(t)).into_iter().filter(|e| !matches!(e, Ent::Par(_))).collect();
        if en.is_empty() {
            break;
        }
        let e = en[s.ch.choose(en.len())];
        s.step_entity(e);
    }
    // pre-emption by other parent threads: a bounded number of hand-overs per call; every
    // possession of the baton executes at least one call, so hand-overs cannot livelock.
    let s = sim();
    if s.threads.len() > 1 && s.poisoned.is_none() {
        let greedy = matches!(s.personality, Personality::ChildGreedy | Personality::Bursty);
        let mut rounds = if s.ch.choose(3) == 0 { 0 } else if greedy { 2 } else { 1 };
        while rounds > 0 {
            rounds -= 1;
            let s = sim();
            if s.poisoned.is_some() {
                break;
            }
            let others: Vec<u8> = (0..s.threads.len() as u8).filter(|u| *u != t && s.thread_enabled_pub(*u as usize)).collect();
            if others.is_empty() {
                break;
            }
            let u = others[s.ch.choose(others.len())];
            s.threads[t as usize].state = TState::Runnable;
            switch_to(t, u);
        }
    }
}

#[derive(Debug, PartialEq, Eq)]
pub enum Woke {
    Ready,
    TimedOut,
    Poisoned,
}

/// Block parent thread `t` until `wait` is ready or `deadline` passes.
pub fn sched_block(t: u8, wait: Wait, deadline: Option<u64>) -> Woke {
    // timer lateness: drawn once per blocking call
    let mut eff_deadline = deadline;
    {
        let s = sim();
        if let (Some(d), true) = (deadline, s.k.faults.timer_late_ns > 0) {
            let late = s.ch.choose(4);
            if late > 0 {
                let l = s.k.faults.timer_late_ns * late as u64 / 3;
                eff_deadline = Some(d + l);
                s.late_ns += l;
                s.k.fcount.hit("timer_late");
            }
        }
        // parent threads that could still run now (quiescence = none)
        let others_runnable = (0..s.threads.len()).filter(|u| *u != t as usize && s.thread_enabled(*u)).count();
        let cur = s.threads[t as usize].cur_call;
        s.k.ev(Ent::Par(t), Call::Blocked, [cur as i64, others_runnable as i64, 0], 0);
        let th = &mut s.threads[t as usize];
        th.blocked_since = true;
        th.wait = Some(wait.clone());
        th.deadline = eff_deadline;
        th.state = TState::Blocked;
    }
    let res;
    loop {
        let s = sim();
        s.threads[t as usize].state = TState::Blocked;
        if s.poisoned.is_some() {
            res = Woke::Poisoned;
            break;
        }
        if s.wait_ready(&wait) {
            res = Woke::Ready;
            break;
        }
        if let Some(d) = eff_deadline {
            if s.k.now >= d {
                res = Woke::TimedOut;
                break;
            }
        }
        s.steps += 1;
        if s.steps > s.step_cap {
            s.harness_error = Some(format!("step cap exceeded while blocked ({})", s.step_cap));
            s.poison("step_cap");
            res = Woke::Poisoned;
            break;
        }
        let en = s.enabled_others(Some(t));
        if en.is_empty() {
            match s.next_timer(Some(t), eff_deadline) {
                None => {
                    // nothing can ever happen again
                    let in_lib = s.k.in_lib.iter().any(|b| *b);
                    let desc = s.describe_block();
                    if in_lib {
                        let label = s.threads.iter().filter_map(|th| th.lib_label.clone()).collect::<Vec<_>>().join("+");
                        let call = s.threads[t as usize].cur_call;
                        s.violate("deadlock", format!("deadlock/in={}/call={:?}", label, call), format!("no entity can make progress and no timer is pending: {}", desc));
                        s.poison("deadlock");
                    } else {
                        // the caller itself blocked for good on a pipe the library handed out (feeding
                        // or draining a child the way the API intends): the wiring made that impossible
                        let on_lib_pipe = match &wait {
                            Wait::Readable(d) | Wait::Writable(d, _) => match s.k.descs[*d].kind {
                                DescKind::PipeR(pi) | DescKind::PipeW(pi) => s.k.pipes[pi].origin == Origin::Lib,
                                _ => false,
                            },
                            _ => false,
                        };
                        if on_lib_pipe {
                            let call = s.threads[t as usize].cur_call;
                            s.violate("deadlock", format!("deadlock/in=caller_io_on_library_pipe/call={:?}", call), format!("the caller is blocked for good on a pipe end the library handed out; no entity can make progress and no timer is pending: {}", desc));
                            s.poison("deadlock");
                        } else {
                            s.poison("harness_deadlock");
                            s.harness_error.get_or_insert(format!("harness-level deadlock: {}", desc));
                        }
                    }
                    res = Woke::Poisoned;
                    break;
                }
                Some(tt) => {
                    if tt > s.k.now {
                        s.k.now = tt;
                    }
                    s.k.ev(Ent::Env, Call::ClockJump, [tt as i64, 0, 0], 0);
                    continue;
                }
            }
        }
        let e = en[s.ch.choose(en.len())];
        match e {
            Ent::Par(u) => switch_to(t, u),
            _ => s.step_entity(e),
        }
    }
    let s = sim();
    let th = &mut s.threads[t as usize];
    th.wait = None;
    th.deadline = None;
    th.state = TState::Running;
    res
}

/// Parent thread `t` is finished: hand the baton on (or leave it if nobody is left).
pub fn thread_exit(t: u8) {
    {
        let s = sim();
        s.threads[t as usize].state = TState::Done;
        s.k.ev(Ent::Par(t), Call::ThreadExit, [0, 0, 0], 0);
    }
    loop {
        let s = sim();
        // anyone left?
        let others_alive = s.threads.iter().enumerate().any(|(u, th)| u != t as usize && th.state != TState::Done);
        if !others_alive {
            return;
        }
        let en = s.enabled_others(Some(t));
        if en.is_empty() {
            match s.next_timer(Some(t), None) {
                None => {
                    if s.poisoned.is_none() {
                        let desc = s.describe_block();
                        let in_lib = s.k.in_lib.iter().any(|b| *b);
                        if in_lib {
                            s.violate("deadlock", "deadlock/at=thread_exit".to_string(), format!("all remaining parent threads are blocked for ever: {}", desc));
                        } else {
                            s.harness_error.get_or_insert(format!("harness deadlock at thread exit: {}", desc));
                        }
                        s.poison("deadlock");
                    }
                    // wake every blocked thread so that it sees the poison
                    let b: Vec<_> = s.threads.iter().enumerate().filter(|(u, th)| *u != t as usize && th.state != TState::Done).map(|(_, th)| th.baton.clone()).collect();
                    if let Some(first) = b.first() {
                        first.give();
                    }
                    return;
                }
                Some(tt) => {
                    if tt > s.k.now {
                        s.k.now = tt;
                    }
                    continue;
                }
            }
        }
        // prefer handing over to a thread; otherwise step entities until one is enabled
        let e = en[s.ch.choose(en.len())];
        match e {
            Ent::Par(u) => {
                if crate::api::DEBUG.load(Ordering::Relaxed) {
                    let st: Vec<String> = s.threads.iter().map(|t| format!("{:?}", t.state)).collect();
                    crate::interpose::raw_write(2, format!("[exit] {} -> {} states={:?}\n", t, u, st).as_bytes());
                }
                let b = s.threads[u as usize].baton.clone();
                b.give();
                return;
            }
            _ => s.step_entity(e),
        }
    }
}

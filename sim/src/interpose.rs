//! The seam: libc entry points defined in the harness binary.  Calls made by
//! a registered parent thread are served by the simulated kernel; calls made
//! in the really forked child (between fork and exec) are applied to the
//! child's private copy and recorded; everything else goes to the real libc.

#![allow(clippy::missing_safety_doc)]

use crate::alloc;
use crate::kernel::*;
use crate::sim::*;
use libc::{c_char, c_int, c_long, c_uint, c_ulong, c_void, pid_t, size_t, ssize_t};
use std::sync::atomic::{AtomicUsize, Ordering};

macro_rules! real {
    ($name:ident : fn($($t:ty),*) -> $r:ty) => {{
        static P: AtomicUsize = AtomicUsize::new(0);
        let mut p = P.load(Ordering::Relaxed);
        if p == 0 {
            p = libc::dlsym(libc::RTLD_NEXT, concat!(stringify!($name), "\0").as_ptr() as *const c_char) as usize;
            P.store(p, Ordering::Relaxed);
        }
        std::mem::transmute::<usize, unsafe extern "C" fn($($t),*) -> $r>(p)
    }};
}

#[derive(Clone, Copy)]
enum Ctx {
    Real,
    Par(u8),
    Child,
}

#[inline]
fn ctx() -> Ctx {
    let c = CTX.with(|c| c.get());
    if c == 0 {
        Ctx::Real
    } else if FORKED.load(Ordering::Relaxed) {
        Ctx::Child
    } else {
        Ctx::Par((c - 1) as u8)
    }
}

unsafe fn set_errno(e: i32) {
    *libc::__errno_location() = e;
}

pub fn raw_write(fd: i32, s: &[u8]) {
    unsafe {
        libc::syscall(libc::SYS_write, fd, s.as_ptr(), s.len());
    }
}

pub fn die(msg: &str) -> ! {
    raw_write(2, b"subsim fatal: ");
    raw_write(2, msg.as_bytes());
    raw_write(2, b"\n");
    unsafe {
        libc::syscall(libc::SYS_exit_group, 3);
    }
    loop {}
}

struct Guard;
impl Guard {
    fn new() -> Guard {
        alloc::enter_harness();
        Guard
    }
}
impl Drop for Guard {
    fn drop(&mut self) {
        alloc::leave_harness();
    }
}

const POISON_ERRNO: i32 = libc::EDEADLK;

fn poisoned() -> bool {
    sim().poisoned.is_some()
}

fn rdset(set: *const libc::sigset_t) -> Option<u64> {
    if set.is_null() {
        None
    } else {
        Some(unsafe { *(set as *const u64) })
    }
}

unsafe fn wrset(set: *mut libc::sigset_t, v: u64) {
    if !set.is_null() {
        std::ptr::write_bytes(set as *mut u8, 0, std::mem::size_of::<libc::sigset_t>());
        *(set as *mut u64) = v;
    }
}

unsafe fn cstr_bytes(p: *const c_char) -> Vec<u8> {
    if p.is_null() {
        return vec![];
    }
    std::ffi::CStr::from_ptr(p).to_bytes().to_vec()
}

unsafe fn cvec(p: *const *const c_char) -> Vec<Vec<u8>> {
    let mut v = vec![];
    if p.is_null() {
        return v;
    }
    let mut i = 0;
    loop {
        let e = *p.add(i);
        if e.is_null() {
            break;
        }
        v.push(cstr_bytes(e));
        i += 1;
        if i > 100_000 {
            break;
        }
    }
    v
}

extern "C" {
    static environ: *const *const c_char;
}

// ============================================================================
// forked-child side
// ============================================================================

struct ChildCtx {
    pid: i32,
    report_fd: i32,
    calls: Vec<ChildCall>,
}

static mut CHILD: Option<ChildCtx> = None;

#[allow(static_mut_refs)]
fn child_ctx() -> &'static mut ChildCtx {
    unsafe { CHILD.as_mut().expect("no child ctx") }
}

fn child_fault_eligible(op: &ChildOp) -> bool {
    matches!(op, ChildOp::Chdir { .. } | ChildOp::Dup2 { .. } | ChildOp::Setuid { .. } | ChildOp::Setgid { .. } | ChildOp::Setpgid { .. })
}

/// Apply one pre-exec call of child `pid` to kernel `s.k`. Used both in the
/// forked child (on its private copy) and in the parent (re-application).
/// The op may be completed in place (Exec: resolved path).
pub fn apply_child_op(s: &mut Sim, pid: i32, op: &mut ChildOp) -> (i64, i32) {
    let spawn_idx = match s.k.proc(pid).kind {
        PKind::Child(i) => i as u32,
        _ => u32::MAX,
    };
    if child_fault_eligible(op) {
        let idx = s.k.proc(pid).cc_idx;
        s.k.proc_mut(pid).cc_idx += 1;
        if let Some((si, ci, e)) = s.k.faults.child_step {
            if si == spawn_idx && ci == idx {
                s.k.fcount.hit("child_step_fail");
                return (-1, e);
            }
        }
    }
    fn r(x: Result<i32, i32>) -> (i64, i32) {
        match x {
            Ok(v) => (v as i64, 0),
            Err(e) => (-1, e),
        }
    }
    fn u(x: Result<(), i32>) -> (i64, i32) {
        match x {
            Ok(()) => (0, 0),
            Err(e) => (-1, e),
        }
    }
    match op {
        ChildOp::Close { fd } => u(s.k.k_close(pid, *fd)),
        ChildOp::Dup2 { old, new } => r(s.k.k_dup2(pid, *old, *new)),
        ChildOp::Dup { old } => r(s.k.k_dupfd(pid, *old, 0, false)),
        ChildOp::Fcntl { fd, cmd, arg } => r(s.k.k_fcntl(pid, *fd, *cmd, *arg)),
        ChildOp::Chdir { path } => u(s.k.k_chdir(pid, path)),
        ChildOp::Setuid { id } => u(s.k.k_setuid(pid, *id)),
        ChildOp::Setgid { id } => u(s.k.k_setgid(pid, *id)),
        ChildOp::Setpgid { pid: p, pgid } => u(s.k.k_setpgid(pid, *p, *pgid)),
        ChildOp::Setsid => {
            s.k.proc_mut(pid).pgid = pid;
            (pid as i64, 0)
        }
        ChildOp::Sigmask { how, set } => {
            if let Some(set) = set {
                let old = s.k.proc(pid).sigmask;
                s.k.proc_mut(pid).sigmask = Kernel::apply_mask(old, *how, *set);
            }
            (0, 0)
        }
        ChildOp::Signal { sig, disp } => {
            if (1..=64).contains(sig) && *sig != SIGKILL && *sig != SIGSTOP {
                s.k.proc_mut(pid).disp[*sig as usize] = *disp;
                (0, 0)
            } else {
                (-1, libc::EINVAL)
            }
        }
        ChildOp::Exec { rec } => {
            let idx = s.k.proc(pid).exec_idx;
            s.k.proc_mut(pid).exec_idx += 1;
            for (si, ci, e) in s.k.faults.exec_errno.clone() {
                if si == spawn_idx && ci == idx {
                    s.k.fcount.hit("exec_errno");
                    return (-1, e);
                }
            }
            if rec.path.contains(&0) {
                return (-1, libc::ENOENT);
            }
            match s.k.resolve_exec(pid, &rec.path) {
                Ok((full, prog)) => {
                    rec.resolved = full;
                    s.k.do_exec(pid, rec.clone(), Some(prog));
                    (0, 0)
                }
                Err(e) => (-1, e),
            }
        }
        ChildOp::Write { fd, data } => match s.k.try_write(pid, *fd, data, None) {
            Ok(n) => (n as i64, 0),
            Err(Blk::Block) => (-1, libc::EAGAIN),
            Err(Blk::Err(e)) => (-1, e),
        },
        ChildOp::Read { .. } => (-1, libc::EBADF),
        ChildOp::Exit { code } => {
            s.k.proc_mut(pid).launch_failed = true;
            let lag = s.k.faults.exit_lag_ns;
            if lag > 0 && s.k.proc(pid).state == PState::PreExec {
                // _exit() has been called, the process lingers while it is torn down
                s.k.fcount.hit("exit_lag");
                let until = s.k.now.saturating_add(lag);
                let p = s.k.proc_mut(pid);
                p.prog = vec![crate::prog::Op::Exit { code: *code }];
                p.cur = Default::default();
                p.state = PState::Sleeping { until };
                // a dying process holds no descriptors any more
                let fds: Vec<i32> = s.k.proc(pid).fds.keys().cloned().collect();
                for fd in fds {
                    let _ = s.k.k_close(pid, fd);
                }
                s.k.touch();
            } else {
                s.k.exit_proc(pid, ExitCause::Code(*code));
            }
            (0, 0)
        }
        ChildOp::Escaped { how } => {
            s.k.proc_mut(pid).escaped = Some(how.clone());
            s.k.proc_mut(pid).launch_failed = true;
            s.k.exit_proc(pid, ExitCause::Code(101));
            (0, 0)
        }
        ChildOp::Other { name } if name == "setgroups" => (0, 0),
        ChildOp::Other { .. } => (-1, libc::ENOSYS),
        ChildOp::Sleep { .. } => (0, 0),
    }
}

fn child_call(mut op: ChildOp) -> (i64, i32) {
    let pid = child_ctx().pid;
    let (ret, errno) = apply_child_op(sim(), pid, &mut op);
    let terminal = matches!((&op, ret), (ChildOp::Exec { .. }, 0) | (ChildOp::Exit { .. }, _) | (ChildOp::Escaped { .. }, _));
    child_ctx().calls.push(ChildCall { op, ret, errno });
    if terminal {
        finish_child();
    }
    // a forked child that neither execs nor exits (say, retrying a failing exec for ever) must
    // not take the worker with it
    if child_ctx().calls.len() >= 5000 {
        child_escaped("runaway: 5000 system calls between fork and exec without exec or _exit");
    }
    (ret, errno)
}

fn finish_child() -> ! {
    let (count, sizes, deallocs) = alloc::snapshot();
    let c = child_ctx();
    let report = ChildReport { calls: std::mem::take(&mut c.calls), alloc_count: count, alloc_sizes: sizes, dealloc_count: deallocs };
    let data = serde_json::to_vec(&report).unwrap_or_default();
    let mut off = 0;
    while off < data.len() {
        let n = unsafe { libc::syscall(libc::SYS_write, c.report_fd, data.as_ptr().add(off), data.len() - off) };
        if n <= 0 {
            break;
        }
        off += n as usize;
    }
    unsafe {
        libc::syscall(libc::SYS_exit_group, 0);
    }
    loop {}
}

/// Library code returned or unwound in the forked child.
pub fn child_escaped(how: &str) -> ! {
    let _g = Guard::new();
    child_call(ChildOp::Escaped { how: how.to_string() });
    finish_child()
}

pub fn in_forked_child() -> bool {
    FORKED.load(Ordering::Relaxed)
}

/// Parent side: apply the recorded pre-exec calls of `pid` (its first step).
pub fn apply_preexec(s: &mut Sim, pid: i32) {
    let report = match s.k.proc_mut(pid).report.take() {
        Some(r) => r,
        None => {
            s.harness_error.get_or_insert(format!("pre-exec process {} without report", pid));
            s.k.exit_proc(pid, ExitCause::Code(250));
            return;
        }
    };
    let mut terminal = false;
    let start = s.k.proc(pid).preexec_pos;
    s.k.proc_mut(pid).preexec_wake = None;
    for (ci, c) in report.calls.iter().enumerate().skip(start) {
        if let ChildOp::Sleep { ns } = &c.op {
            if *ns > 0 {
                // the forked copy of the parent, with everything the parent had open, takes a nap
                let until = s.k.now.saturating_add(*ns);
                let p = s.k.proc_mut(pid);
                p.preexec_pos = ci + 1;
                p.preexec_wake = Some(until);
                p.report = Some(report);
                s.k.probe("sleep_between_fork_and_exec");
                s.k.touch();
                return;
            }
            continue;
        }
        let mut op = c.op.clone();
        let (ret, errno) = apply_child_op(s, pid, &mut op);
        if matches!(op, ChildOp::Write { .. }) && c.ret >= 0 && (ret, errno) == (-1, libc::EPIPE) {
            // the parent closed its end of the pipe between the fork and this (atomic, deferred)
            // step: the forked child wrote while the reader still existed.  What the child does
            // next does not depend on the result (it only reports a failed launch and exits),
            // so the new outcome stands: the process dies of SIGPIPE if that is the default by now.
            s.k.probe("preexec_write_after_reader_closed");
            let fatal = s.k.proc(pid).disp[SIGPIPE as usize] == Disp::Default;
            if fatal && s.k.is_alive(pid) {
                s.k.proc_mut(pid).launch_failed = true;
                s.k.exit_proc(pid, ExitCause::Signal(SIGPIPE));
                terminal = true;
                break;
            }
            continue;
        }
        if let ChildOp::Fcntl { cmd, .. } = &op {
            if *cmd == libc::F_GETFL && ret >= 0 && c.ret >= 0 && ret != c.ret {
                // status flags of an open file shared with somebody who changed them between
                // the fork and this step (another forked child, say): what was done stands
                s.k.probe("preexec_getfl_changed_since_fork");
                continue;
            }
        }
        if ret != c.ret || errno != c.errno {
            s.harness_error.get_or_insert(format!("replay divergence in pre-exec call {:?}: recorded ({},{}) now ({},{})", c.op, c.ret, c.errno, ret, errno));
            s.k.probe("replay_divergence");
        }
        if matches!((&op, ret), (ChildOp::Exec { .. }, 0) | (ChildOp::Exit { .. }, _) | (ChildOp::Escaped { .. }, _)) {
            terminal = true;
            break;
        }
    }
    if !terminal {
        s.harness_error.get_or_insert(format!("forked child {} ended without exec/_exit (crashed?)", pid));
        if s.k.procs.get(&pid).map(|p| p.alive()).unwrap_or(false) {
            s.k.exit_proc(pid, ExitCause::Code(251));
        }
    }
    if let Some(p) = s.k.procs.get_mut(&pid) {
        p.report = Some(report);
    } else if let Some(p) = s.k.graveyard.iter_mut().rev().find(|p| p.pid == pid) {
        p.report = Some(report);
    }
}

// ============================================================================
// parent side helpers
// ============================================================================

fn par_log(t: u8, call: Call, a: [i64; 3], ret: i64) {
    sim().k.ev(Ent::Par(t), call, a, ret);
}

unsafe fn fin(t: u8, call: Call, a: [i64; 3], res: Result<i64, i32>) -> i64 {
    match res {
        Ok(v) => {
            par_log(t, call, a, v);
            v
        }
        Err(e) => {
            par_log(t, call, a, -(e as i64));
            set_errno(e);
            -1
        }
    }
}

fn note_std_touch(t: u8, what: &str, fd: i32) {
    if (0..=2).contains(&fd) {
        let s = sim();
        // a parent started with closed standard descriptors gets the library's own pipes at
        // these numbers; handling those is not touching the parent's standard streams
        if let Some(e) = s.k.proc(PARENT_PID).fds.get(&fd) {
            if s.k.descs[e.desc].origin != Origin::Boot {
                return;
            }
        }
        let label = s.threads[t as usize].lib_label.clone().unwrap_or_else(|| "outside-lib".into());
        s.k.std_touched.push(format!("{}({}) in {}", what, fd, label));
    }
}

fn note_ebadf(t: u8, what: &str, fd: i32) {
    let s = sim();
    if s.k.desc_of(PARENT_PID, fd).is_some() && what != "close" {
        // the descriptor is open: the EBADF was injected, not earned
        return;
    }
    if s.k.in_lib[t as usize] || s.threads[t as usize].lib_label.is_some() {
        let label = s.threads[t as usize].lib_label.clone().unwrap_or_default();
        s.k.ebadf.push(format!("{}({}) in {}", what, fd, label));
    }
}

// ============================================================================
// the interposed entry points
// ============================================================================

#[no_mangle]
pub unsafe extern "C" fn pipe(fds: *mut c_int) -> c_int {
    pipe2(fds, 0)
}

#[no_mangle]
pub unsafe extern "C" fn pipe2(fds: *mut c_int, flags: c_int) -> c_int {
    match ctx() {
        Ctx::Real => real!(pipe2: fn(*mut c_int, c_int) -> c_int)(fds, flags),
        Ctx::Child => {
            set_errno(libc::EMFILE);
            -1
        }
        Ctx::Par(t) => {
            let _g = Guard::new();
            par_enter(t, Call::Pipe);
            if poisoned() {
                set_errno(POISON_ERRNO);
                return -1;
            }
            let r = sim().k.k_pipe(PARENT_PID, Ent::Par(t), flags & libc::O_CLOEXEC != 0);
            match r {
                Ok((a, b)) => {
                    *fds = a;
                    *fds.add(1) = b;
                    fin(t, Call::Pipe, [a as i64, b as i64, flags as i64], Ok(0)) as c_int
                }
                Err(e) => fin(t, Call::Pipe, [0, 0, flags as i64], Err(e)) as c_int,
            }
        }
    }
}

#[no_mangle]
pub unsafe extern "C" fn close(fd: c_int) -> c_int {
    match ctx() {
        Ctx::Real => real!(close: fn(c_int) -> c_int)(fd),
        Ctx::Child => {
            let _g = Guard::new();
            let (r, e) = child_call(ChildOp::Close { fd });
            if r < 0 {
                set_errno(e);
            }
            r as c_int
        }
        Ctx::Par(t) => {
            let _g = Guard::new();
            par_enter(t, Call::Close);
            note_std_touch(t, "close", fd);
            let r = sim().k.k_close(PARENT_PID, fd);
            if r.is_err() {
                note_ebadf(t, "close", fd);
            }
            if poisoned() {
                return 0;
            }
            fin(t, Call::Close, [fd as i64, 0, 0], r.map(|_| 0)) as c_int
        }
    }
}

#[no_mangle]
pub unsafe extern "C" fn dup(fd: c_int) -> c_int {
    match ctx() {
        Ctx::Real => real!(dup: fn(c_int) -> c_int)(fd),
        Ctx::Child => {
            let _g = Guard::new();
            let (r, e) = child_call(ChildOp::Dup { old: fd });
            if r < 0 {
                set_errno(e);
            }
            r as c_int
        }
        Ctx::Par(t) => {
            let _g = Guard::new();
            par_enter(t, Call::Dup);
            if poisoned() {
                set_errno(POISON_ERRNO);
                return -1;
            }
            let r = sim().k.k_dupfd(PARENT_PID, fd, 0, false);
            fin(t, Call::Dup, [fd as i64, 0, 0], r.map(|v| v as i64)) as c_int
        }
    }
}

#[no_mangle]
pub unsafe extern "C" fn dup2(old: c_int, new: c_int) -> c_int {
    dup3_impl(old, new, 0, false)
}

#[no_mangle]
pub unsafe extern "C" fn dup3(old: c_int, new: c_int, flags: c_int) -> c_int {
    dup3_impl(old, new, flags, true)
}

unsafe fn dup3_impl(old: c_int, new: c_int, flags: c_int, is3: bool) -> c_int {
    match ctx() {
        Ctx::Real => {
            if is3 {
                real!(dup3: fn(c_int, c_int, c_int) -> c_int)(old, new, flags)
            } else {
                real!(dup2: fn(c_int, c_int) -> c_int)(old, new)
            }
        }
        Ctx::Child => {
            let _g = Guard::new();
            let (r, e) = child_call(ChildOp::Dup2 { old, new });
            if r < 0 {
                set_errno(e);
            } else if flags & libc::O_CLOEXEC != 0 {
                child_call(ChildOp::Fcntl { fd: new, cmd: libc::F_SETFD, arg: libc::FD_CLOEXEC as i64 });
            }
            r as c_int
        }
        Ctx::Par(t) => {
            let _g = Guard::new();
            par_enter(t, Call::Dup2);
            if poisoned() {
                set_errno(POISON_ERRNO);
                return -1;
            }
            note_std_touch(t, "dup2-onto", new);
            let r = sim().k.k_dup2(PARENT_PID, old, new);
            if let (Ok(_), true) = (&r, flags & libc::O_CLOEXEC != 0) {
                sim().k.proc_mut(PARENT_PID).fds.get_mut(&new).unwrap().cloexec = true;
            }
            if r == Err(libc::EBADF) {
                note_ebadf(t, "dup2", old);
            }
            fin(t, Call::Dup2, [old as i64, new as i64, 0], r.map(|v| v as i64)) as c_int
        }
    }
}

#[no_mangle]
pub unsafe extern "C" fn fcntl(fd: c_int, cmd: c_int, arg: c_long) -> c_int {
    fcntl_impl(fd, cmd, arg)
}

#[no_mangle]
pub unsafe extern "C" fn fcntl64(fd: c_int, cmd: c_int, arg: c_long) -> c_int {
    fcntl_impl(fd, cmd, arg)
}

unsafe fn fcntl_impl(fd: c_int, cmd: c_int, arg: c_long) -> c_int {
    match ctx() {
        Ctx::Real => real!(fcntl: fn(c_int, c_int, c_long) -> c_int)(fd, cmd, arg),
        Ctx::Child => {
            let _g = Guard::new();
            let (r, e) = child_call(ChildOp::Fcntl { fd, cmd, arg: if cmd == libc::F_GETFD || cmd == libc::F_GETFL { 0 } else { arg as i64 } });
            if r < 0 {
                set_errno(e);
            }
            r as c_int
        }
        Ctx::Par(t) => {
            let _g = Guard::new();
            par_enter(t, Call::Fcntl);
            if poisoned() {
                return 0;
            }
            if cmd == libc::F_SETFD {
                note_std_touch(t, "fcntl-setfd", fd);
            }
            let r = sim().k.k_fcntl(PARENT_PID, fd, cmd, arg as i64);
            if r == Err(libc::EBADF) {
                note_ebadf(t, "fcntl", fd);
                if cmd == libc::F_GETFD {
                    // std's debug assertion on OwnedFd::drop would abort the
                    // worker; the EBADF is recorded, the answer is softened
                    par_log(t, Call::Fcntl, [fd as i64, cmd as i64, 0], -(libc::EBADF as i64));
                    return 0;
                }
            }
            fin(t, Call::Fcntl, [fd as i64, cmd as i64, if cmd == libc::F_SETFD { arg as i64 } else { 0 }], r.map(|v| v as i64)) as c_int
        }
    }
}

/// A signal interrupts the call that is about to block?  (only inside library calls)
fn eintr_fault(s: &mut Sim, t: u8, kind: u8) -> bool {
    let (n, cnt, mask) = match s.k.faults.eintr {
        Some(x) => x,
        None => return false,
    };
    if mask & kind == 0 || !s.k.in_lib[t as usize] {
        return false;
    }
    s.k.n_wouldblock += 1;
    let k = s.k.n_wouldblock;
    if k >= n && k < n + cnt {
        s.k.fcount.hit("eintr");
        s.k.probe(match kind {
            1 => "eintr_poll",
            2 => "eintr_pipe_io",
            8 => "eintr_sleep",
            _ => "eintr_waitpid",
        });
        true
    } else {
        false
    }
}

fn short_fault(s: &mut Sim, pm: u32, avail: usize, name: &'static str) -> Option<usize> {
    if pm == 0 || avail < 2 {
        return None;
    }
    let r = s.ch.choose(1000);
    if r >= 1000 - pm as usize {
        let n = 1 + s.ch.choose(avail - 1);
        s.k.fcount.hit(name);
        Some(n)
    } else {
        None
    }
}

#[no_mangle]
pub unsafe extern "C" fn read(fd: c_int, buf: *mut c_void, n: size_t) -> ssize_t {
    match ctx() {
        Ctx::Real => real!(read: fn(c_int, *mut c_void, size_t) -> ssize_t)(fd, buf, n),
        Ctx::Child => {
            let _g = Guard::new();
            let (r, e) = child_call(ChildOp::Read { fd, n });
            if r < 0 {
                set_errno(e);
            }
            r as ssize_t
        }
        Ctx::Par(t) => {
            let _g = Guard::new();
            par_enter(t, Call::Read);
            let out = std::slice::from_raw_parts_mut(buf as *mut u8, n);
            loop {
                if poisoned() {
                    set_errno(POISON_ERRNO);
                    return -1;
                }
                let s = sim();
                let d = s.k.desc_of(PARENT_PID, fd);
                let mut max_take = None;
                if let Some(d) = d {
                    if let DescKind::PipeR(p) = s.k.descs[d].kind {
                        let avail = s.k.pipes[p].avail().min(n);
                        if n >= 16 {
                            max_take = short_fault(s, s.k.faults.short_read_pm, avail, "short_read");
                        }
                    }
                }
                match s.k.try_read(PARENT_PID, fd, out, max_take) {
                    Ok(k) => return fin(t, Call::Read, [fd as i64, n as i64, 0], Ok(k as i64)) as ssize_t,
                    Err(Blk::Err(e)) => {
                        if e == libc::EBADF {
                            note_ebadf(t, "read", fd);
                        }
                        return fin(t, Call::Read, [fd as i64, n as i64, 0], Err(e)) as ssize_t;
                    }
                    Err(Blk::Block) => {
                        if eintr_fault(s, t, 2) {
                            return fin(t, Call::Read, [fd as i64, n as i64, 0], Err(libc::EINTR)) as ssize_t;
                        }
                        sched_block(t, Wait::Readable(d.unwrap()), None);
                    }
                }
            }
        }
    }
}

#[no_mangle]
pub unsafe extern "C" fn write(fd: c_int, buf: *const c_void, n: size_t) -> ssize_t {
    match ctx() {
        Ctx::Real => real!(write: fn(c_int, *const c_void, size_t) -> ssize_t)(fd, buf, n),
        Ctx::Child => {
            let _g = Guard::new();
            let data = std::slice::from_raw_parts(buf as *const u8, n).to_vec();
            let (r, e) = child_call(ChildOp::Write { fd, data });
            if r < 0 {
                set_errno(e);
            }
            r as ssize_t
        }
        Ctx::Par(t) => {
            let _g = Guard::new();
            par_enter(t, Call::Write);
            let data = std::slice::from_raw_parts(buf as *const u8, n);
            let mut total = 0usize;
            loop {
                if poisoned() {
                    set_errno(POISON_ERRNO);
                    return -1;
                }
                let s = sim();
                let d = s.k.desc_of(PARENT_PID, fd);
                let mut max_take = None;
                if let Some(d) = d {
                    if let DescKind::PipeW(_) = s.k.descs[d].kind {
                        if total == 0 {
                            max_take = short_fault(s, s.k.faults.short_write_pm, n, "short_write");
                        }
                    }
                }
                match s.k.try_write(PARENT_PID, fd, &data[total..], max_take) {
                    Ok(k) => {
                        total += k;
                        // a blocking write larger than PIPE_BUF continues until everything is written
                        if total < n && max_take.is_none() && n > PIPE_BUF {
                            if let Some(d) = d {
                                if matches!(s.k.descs[d].kind, DescKind::PipeW(_)) {
                                    s.k.probe("parent_big_write_blocked");
                                    if eintr_fault(s, t, 2) {
                                        // interrupted after a partial transfer: the count so far
                                        return fin(t, Call::Write, [fd as i64, n as i64, 0], Ok(total as i64)) as ssize_t;
                                    }
                                    sched_block(t, Wait::Writable(d, n - total), None);
                                    continue;
                                }
                            }
                        }
                        return fin(t, Call::Write, [fd as i64, n as i64, 0], Ok(total as i64)) as ssize_t;
                    }
                    Err(Blk::Err(e)) => {
                        if total > 0 {
                            return fin(t, Call::Write, [fd as i64, n as i64, 0], Ok(total as i64)) as ssize_t;
                        }
                        if e == libc::EBADF {
                            note_ebadf(t, "write", fd);
                        }
                        if e == libc::EPIPE {
                            s.k.probe("parent_epipe");
                        }
                        return fin(t, Call::Write, [fd as i64, n as i64, 0], Err(e)) as ssize_t;
                    }
                    Err(Blk::Block) => {
                        s.k.probe("parent_write_blocked");
                        if eintr_fault(s, t, 2) {
                            let r = if total > 0 { Ok(total as i64) } else { Err(libc::EINTR) };
                            return fin(t, Call::Write, [fd as i64, n as i64, 0], r) as ssize_t;
                        }
                        sched_block(t, Wait::Writable(d.unwrap(), (n - total).min(PIPE_BUF + 1)), None);
                    }
                }
            }
        }
    }
}

unsafe fn open_impl(path: *const c_char, flags: c_int, mode: c_uint) -> c_int {
    match ctx() {
        Ctx::Real => real!(open64: fn(*const c_char, c_int, c_uint) -> c_int)(path, flags, mode),
        Ctx::Child => {
            set_errno(libc::EMFILE);
            -1
        }
        Ctx::Par(t) => {
            let _g = Guard::new();
            par_enter(t, Call::Open);
            if poisoned() {
                set_errno(POISON_ERRNO);
                return -1;
            }
            let p = cstr_bytes(path);
            let r = sim().k.k_open(PARENT_PID, Ent::Par(t), &p, flags);
            fin(t, Call::Open, [flags as i64, 0, 0], r.map(|v| v as i64)) as c_int
        }
    }
}

#[no_mangle]
pub unsafe extern "C" fn open(path: *const c_char, flags: c_int, mode: c_uint) -> c_int {
    open_impl(path, flags, mode)
}

#[no_mangle]
pub unsafe extern "C" fn open64(path: *const c_char, flags: c_int, mode: c_uint) -> c_int {
    open_impl(path, flags, mode)
}

#[no_mangle]
pub unsafe extern "C" fn openat(dirfd: c_int, path: *const c_char, flags: c_int, mode: c_uint) -> c_int {
    match ctx() {
        Ctx::Real => real!(openat: fn(c_int, *const c_char, c_int, c_uint) -> c_int)(dirfd, path, flags, mode),
        _ => open_impl(path, flags, mode),
    }
}

#[no_mangle]
pub unsafe extern "C" fn openat64(dirfd: c_int, path: *const c_char, flags: c_int, mode: c_uint) -> c_int {
    openat(dirfd, path, flags, mode)
}

#[no_mangle]
pub unsafe extern "C" fn poll(fds: *mut libc::pollfd, nfds: c_ulong, timeout: c_int) -> c_int {
    match ctx() {
        Ctx::Real => real!(poll: fn(*mut libc::pollfd, c_ulong, c_int) -> c_int)(fds, nfds, timeout),
        Ctx::Child => {
            set_errno(libc::ENOSYS);
            -1
        }
        Ctx::Par(t) => {
            let _g = Guard::new();
            par_enter(t, Call::Poll);
            let v = std::slice::from_raw_parts_mut(fds, nfds as usize);
            let start = sim().k.now;
            let deadline = if timeout < 0 { None } else { Some(start.saturating_add(timeout as u64 * 1_000_000)) };
            let mut blocked = false;
            loop {
                if poisoned() {
                    set_errno(POISON_ERRNO);
                    return -1;
                }
                let s = sim();
                let mut cnt = 0;
                let mut mask_summary: i64 = 0;
                for (i, p) in v.iter_mut().enumerate() {
                    p.revents = s.k.poll_revents(PARENT_PID, p.fd, p.events);
                    if p.revents != 0 {
                        cnt += 1;
                    }
                    mask_summary |= (p.revents as i64 & 0xff) << (8 * i.min(6));
                }
                let timed_out = deadline.map(|d| s.k.now >= d).unwrap_or(false);
                if cnt > 0 || timeout == 0 || (blocked && timed_out) || timed_out {
                    if v.iter().filter(|p| p.fd >= 0).count() >= 2 && cnt >= 2 {
                        s.k.probe("poll_multi_ready");
                    }
                    return fin(t, Call::Poll, [timeout as i64, mask_summary, blocked as i64], Ok(cnt)) as c_int;
                }
                if eintr_fault(s, t, 1) {
                    // the signal arrives some way into the wait, not at its first instant: a wait
                    // that is simply started over after the interruption then overshoots its limit
                    if let Some(d) = deadline {
                        let left = d.saturating_sub(s.k.now);
                        let part = left / 4 * (1 + s.ch.choose(3) as u64);
                        if part > 0 {
                            let w: Vec<(i32, i16)> = v.iter().map(|p| (p.fd, p.events)).collect();
                            let mid = s.k.now.saturating_add(part);
                            if let Woke::Ready = sched_block(t, Wait::Poll(w), Some(mid)) {
                                // something became ready first: no interruption after all
                                blocked = true;
                                continue;
                            }
                        }
                    }
                    return fin(t, Call::Poll, [timeout as i64, 0, blocked as i64], Err(libc::EINTR)) as c_int;
                }
                blocked = true;
                let w: Vec<(i32, i16)> = v.iter().map(|p| (p.fd, p.events)).collect();
                sched_block(t, Wait::Poll(w), deadline);
            }
        }
    }
}

#[no_mangle]
pub unsafe extern "C" fn ppoll(fds: *mut libc::pollfd, nfds: c_ulong, ts: *const libc::timespec, sigmask: *const libc::sigset_t) -> c_int {
    match ctx() {
        Ctx::Real => real!(ppoll: fn(*mut libc::pollfd, c_ulong, *const libc::timespec, *const libc::sigset_t) -> c_int)(fds, nfds, ts, sigmask),
        _ => {
            // millisecond granularity is enough for a re-implementation through ppoll
            let ms = if ts.is_null() { -1 } else { ((*ts).tv_sec as i64 * 1000 + ((*ts).tv_nsec as i64 + 999_999) / 1_000_000).min(i32::MAX as i64) as c_int };
            poll(fds, nfds, ms)
        }
    }
}

#[no_mangle]
pub unsafe extern "C" fn clock_gettime(clk: c_int, ts: *mut libc::timespec) -> c_int {
    match ctx() {
        Ctx::Real => real!(clock_gettime: fn(c_int, *mut libc::timespec) -> c_int)(clk, ts),
        Ctx::Child => {
            let now = sim().k.now;
            (*ts).tv_sec = (now / 1_000_000_000) as i64;
            (*ts).tv_nsec = (now % 1_000_000_000) as i64;
            0
        }
        Ctx::Par(t) => {
            let _g = Guard::new();
            par_enter(t, Call::ClockGet);
            let now = sim().k.now;
            (*ts).tv_sec = (now / 1_000_000_000) as i64;
            (*ts).tv_nsec = (now % 1_000_000_000) as i64;
            par_log(t, Call::ClockGet, [0, 0, 0], now as i64);
            0
        }
    }
}

/// Returns the time left when the sleep was interrupted by a signal handler (EINTR), else None.
unsafe fn sleep_impl(t: u8, ns: u64, absolute: bool) -> Option<u64> {
    par_enter(t, Call::Sleep);
    if poisoned() {
        return None;
    }
    let start = sim().k.now;
    let deadline = if absolute { ns } else { start.saturating_add(ns) };
    let mut left = None;
    if deadline > start {
        let total = deadline - start;
        if total >= 4 && eintr_fault(sim(), t, 8) {
            // the signal arrives some way into the sleep
            let part = total / 4 * (1 + sim().ch.choose(3) as u64);
            sched_block(t, Wait::Timer, Some(start.saturating_add(part)));
            left = Some(deadline.saturating_sub(sim().k.now));
        } else {
            sched_block(t, Wait::Timer, Some(deadline));
        }
    }
    let end = sim().k.now;
    par_log(t, Call::Sleep, [ns as i64, absolute as i64, left.is_some() as i64], (end - start) as i64);
    left
}

#[no_mangle]
pub unsafe extern "C" fn nanosleep(req: *const libc::timespec, rem: *mut libc::timespec) -> c_int {
    match ctx() {
        Ctx::Real => real!(nanosleep: fn(*const libc::timespec, *mut libc::timespec) -> c_int)(req, rem),
        Ctx::Child => {
            let _g = Guard::new();
            let ns = ((*req).tv_sec as u64).saturating_mul(1_000_000_000).saturating_add((*req).tv_nsec as u64);
            child_call(ChildOp::Sleep { ns });
            0
        }
        Ctx::Par(t) => {
            let _g = Guard::new();
            let ns = (*req).tv_sec as u64 * 1_000_000_000 + (*req).tv_nsec as u64;
            match sleep_impl(t, ns, false) {
                None => 0,
                Some(left) => {
                    if !rem.is_null() {
                        (*rem).tv_sec = (left / 1_000_000_000) as i64;
                        (*rem).tv_nsec = (left % 1_000_000_000) as i64;
                    }
                    set_errno(libc::EINTR);
                    -1
                }
            }
        }
    }
}

#[no_mangle]
pub unsafe extern "C" fn clock_nanosleep(clk: c_int, flags: c_int, req: *const libc::timespec, rem: *mut libc::timespec) -> c_int {
    match ctx() {
        Ctx::Real => real!(clock_nanosleep: fn(c_int, c_int, *const libc::timespec, *mut libc::timespec) -> c_int)(clk, flags, req, rem),
        Ctx::Child => {
            let _g = Guard::new();
            let ns = ((*req).tv_sec as u64).saturating_mul(1_000_000_000).saturating_add((*req).tv_nsec as u64);
            // (an absolute deadline is taken relative to the time of the fork)
            let ns = if flags & libc::TIMER_ABSTIME != 0 { ns.saturating_sub(sim().k.now) } else { ns };
            child_call(ChildOp::Sleep { ns });
            0
        }
        Ctx::Par(t) => {
            let _g = Guard::new();
            let ns = ((*req).tv_sec as u64).saturating_mul(1_000_000_000).saturating_add((*req).tv_nsec as u64);
            let abs = flags & libc::TIMER_ABSTIME != 0;
            match sleep_impl(t, ns, abs) {
                None => 0,
                Some(left) => {
                    if !abs && !rem.is_null() {
                        (*rem).tv_sec = (left / 1_000_000_000) as i64;
                        (*rem).tv_nsec = (left % 1_000_000_000) as i64;
                    }
                    // clock_nanosleep returns the error number itself
                    libc::EINTR
                }
            }
        }
    }
}

#[no_mangle]
pub unsafe extern "C" fn fork() -> pid_t {
    match ctx() {
        Ctx::Real => real!(fork: fn() -> pid_t)(),
        Ctx::Child => {
            set_errno(libc::EAGAIN);
            -1
        }
        Ctx::Par(t) => {
            let _g = Guard::new();
            par_enter(t, Call::Fork);
            if poisoned() {
                set_errno(POISON_ERRNO);
                return -1;
            }
            let s = sim();
            s.k.n_fork += 1;
            if let Some((n, e)) = s.k.faults.fork {
                if n == s.k.n_fork {
                    s.k.fcount.hit("fork_fail");
                    return fin(t, Call::Fork, [0, 0, 0], Err(e)) as pid_t;
                }
            }
            let mask = s.k.par_mask[t as usize];
            let spawn_idx = s.k.n_spawned;
            s.k.n_spawned += 1;
            s.k.last_fork_of_thread[t as usize] = Some(spawn_idx);
            let cpid = s.k.fork_proc(PARENT_PID, mask, PKind::Child(spawn_idx));
            s.k.proc_mut(cpid).forked_by = Some(t);
            // the report channel (real descriptors, never seen by the library)
            let mut rp = [0 as c_int; 2];
            if libc::syscall(libc::SYS_pipe2, rp.as_mut_ptr(), libc::O_CLOEXEC) != 0 {
                die("cannot create report pipe");
            }
            let rc = real!(fork: fn() -> pid_t)();
            if rc < 0 {
                die("real fork failed");
            }
            if rc == 0 {
                // ---- the real child: library code continues on its private copy
                libc::syscall(libc::SYS_close, rp[0]);
                #[allow(static_mut_refs)]
                {
                    CHILD = Some(ChildCtx { pid: cpid, report_fd: rp[1], calls: vec![] });
                }
                FORKED.store(true, Ordering::SeqCst);
                alloc::arm();
                return 0;
            }
            libc::syscall(libc::SYS_close, rp[1]);
            let mut data: Vec<u8> = Vec::with_capacity(4096);
            let mut buf = [0u8; 65536];
            loop {
                let n = libc::syscall(libc::SYS_read, rp[0], buf.as_mut_ptr(), buf.len());
                if n <= 0 {
                    break;
                }
                data.extend_from_slice(&buf[..n as usize]);
            }
            libc::syscall(libc::SYS_close, rp[0]);
            let mut st: c_int = 0;
            raw_syscall(libc::SYS_wait4, rc as c_long, &mut st as *mut c_int as c_long, 0, 0, 0, 0);
            let report: ChildReport = match serde_json::from_slice(&data) {
                Ok(r) => r,
                Err(_) => {
                    sim().harness_error.get_or_insert(format!("forked child gave no report (wait status {:#x}, {} bytes)", st, data.len()));
                    ChildReport::default()
                }
            };
            sim().k.proc_mut(cpid).report = Some(report);
            fin(t, Call::Fork, [spawn_idx as i64, 0, 0], Ok(cpid as i64)) as pid_t
        }
    }
}

#[no_mangle]
pub unsafe extern "C" fn vfork() -> pid_t {
    fork()
}

unsafe fn wait_impl(t: u8, pid: pid_t, status: *mut c_int, options: c_int) -> pid_t {
    par_enter(t, Call::Waitpid);
    let mut blocked = false;
    loop {
        if poisoned() {
            set_errno(POISON_ERRNO);
            return -1;
        }
        let s = sim();
        let in_lib = s.k.in_lib[t as usize];
        let r = s.k.try_waitpid(PARENT_PID, Ent::Par(t), pid, options);
        let rec = |s: &mut Sim, ret: i32, st: i32| {
            let seq = s.k.seq + 1;
            let now = s.k.now;
            s.k.wait_log.push(WaitRec { seq, t: now, who: Ent::Par(t), pid, flags: options, ret, status: st, in_lib });
        };
        match r {
            Ok((p, st)) => {
                if !status.is_null() {
                    *status = st;
                }
                rec(s, p, st);
                return fin(t, Call::Waitpid, [pid as i64, options as i64, blocked as i64], Ok(p as i64)) as pid_t;
            }
            Err(Blk::Err(e)) => {
                rec(s, -e, 0);
                return fin(t, Call::Waitpid, [pid as i64, options as i64, blocked as i64], Err(e)) as pid_t;
            }
            Err(Blk::Block) => {
                if eintr_fault(s, t, 4) {
                    rec(s, -libc::EINTR, 0);
                    return fin(t, Call::Waitpid, [pid as i64, options as i64, blocked as i64], Err(libc::EINTR)) as pid_t;
                }
                blocked = true;
                sched_block(t, Wait::Child(pid, options), None);
            }
        }
    }
}

#[no_mangle]
pub unsafe extern "C" fn waitpid(pid: pid_t, status: *mut c_int, options: c_int) -> pid_t {
    match ctx() {
        Ctx::Real => real!(waitpid: fn(pid_t, *mut c_int, c_int) -> pid_t)(pid, status, options),
        Ctx::Child => {
            set_errno(libc::ECHILD);
            -1
        }
        Ctx::Par(t) => {
            let _g = Guard::new();
            wait_impl(t, pid, status, options)
        }
    }
}

#[no_mangle]
pub unsafe extern "C" fn wait4(pid: pid_t, status: *mut c_int, options: c_int, ru: *mut libc::rusage) -> pid_t {
    match ctx() {
        Ctx::Real => real!(wait4: fn(pid_t, *mut c_int, c_int, *mut libc::rusage) -> pid_t)(pid, status, options, ru),
        Ctx::Child => {
            set_errno(libc::ECHILD);
            -1
        }
        Ctx::Par(t) => {
            let _g = Guard::new();
            wait_impl(t, pid, status, options)
        }
    }
}

/// waitid(): answered by the simulated process table (P_PID / P_ALL; WEXITED, WSTOPPED, WCONTINUED,
/// WNOHANG, WNOWAIT) - never by the real kernel with a simulated pid.
#[no_mangle]
pub unsafe extern "C" fn waitid(idtype: libc::idtype_t, id: libc::id_t, info: *mut libc::siginfo_t, options: c_int) -> c_int {
    match ctx() {
        Ctx::Real => real!(waitid: fn(libc::idtype_t, libc::id_t, *mut libc::siginfo_t, c_int) -> c_int)(idtype, id, info, options),
        Ctx::Child => {
            set_errno(libc::ECHILD);
            -1
        }
        Ctx::Par(t) => {
            let _g = Guard::new();
            par_enter(t, Call::Waitpid);
            let pid: i32 = if idtype == libc::P_PID { id as i32 } else { -1 };
            loop {
                if poisoned() {
                    set_errno(POISON_ERRNO);
                    return -1;
                }
                let s = sim();
                // candidates and their reportable state
                let cands: Vec<i32> = s.k.procs.values().filter(|p| p.ppid == PARENT_PID && (pid == -1 || p.pid == pid)).map(|p| p.pid).collect();
                if cands.is_empty() {
                    return fin(t, Call::Waitpid, [pid as i64, options as i64, 2], Err(libc::ECHILD)) as c_int;
                }
                let mut found: Option<(i32, i32, i32)> = None; // (pid, si_code, si_status)
                for c in &cands {
                    let p = s.k.proc(*c);
                    if let (true, PState::Zombie { status }) = (options & libc::WEXITED != 0, p.state.clone()) {
                        let (code, st) = if status & 0x7f == 0 {
                            (libc::CLD_EXITED, (status >> 8) & 0xff)
                        } else if status & 0x80 != 0 {
                            (libc::CLD_DUMPED, status & 0x7f)
                        } else {
                            (libc::CLD_KILLED, status & 0x7f)
                        };
                        found = Some((*c, code, st));
                        break;
                    }
                    if options & libc::WSTOPPED != 0 && p.stopped && p.stop_unreported != 0 {
                        found = Some((*c, libc::CLD_STOPPED, p.stop_unreported));
                        break;
                    }
                    if options & libc::WCONTINUED != 0 && p.cont_unreported {
                        found = Some((*c, libc::CLD_CONTINUED, SIGCONT));
                        break;
                    }
                }
                if let Some((c, code, st)) = found {
                    if !info.is_null() {
                        std::ptr::write_bytes(info as *mut u8, 0, std::mem::size_of::<libc::siginfo_t>());
                        (*info).si_signo = libc::SIGCHLD;
                        (*info).si_code = code;
                        // si_pid, si_uid, si_status live in the union after the three ints (+ padding on 64 bit)
                        let base = info as *mut i32;
                        *base.add(4) = c;
                        *base.add(5) = 0;
                        *base.add(6) = st;
                    }
                    if options & libc::WNOWAIT == 0 {
                        match code {
                            x if x == libc::CLD_EXITED || x == libc::CLD_KILLED || x == libc::CLD_DUMPED => s.k.reap(c, Ent::Par(t)),
                            x if x == libc::CLD_STOPPED => s.k.proc_mut(c).stop_unreported = 0,
                            _ => s.k.proc_mut(c).cont_unreported = false,
                        }
                    }
                    return fin(t, Call::Waitpid, [pid as i64, options as i64, 2], Ok(0)) as c_int;
                }
                if options & libc::WNOHANG != 0 {
                    if !info.is_null() {
                        std::ptr::write_bytes(info as *mut u8, 0, std::mem::size_of::<libc::siginfo_t>());
                    }
                    return fin(t, Call::Waitpid, [pid as i64, options as i64, 2], Ok(0)) as c_int;
                }
                let mut fl = 0;
                if options & libc::WSTOPPED != 0 {
                    fl |= libc::WUNTRACED;
                }
                if options & libc::WCONTINUED != 0 {
                    fl |= libc::WCONTINUED;
                }
                sched_block(t, Wait::Child(pid, fl), None);
            }
        }
    }
}

#[no_mangle]
pub unsafe extern "C" fn kill(pid: pid_t, sig: c_int) -> c_int {
    match ctx() {
        Ctx::Real => real!(kill: fn(pid_t, c_int) -> c_int)(pid, sig),
        Ctx::Child => {
            set_errno(libc::EPERM);
            -1
        }
        Ctx::Par(t) => {
            let _g = Guard::new();
            par_enter(t, Call::Kill);
            if poisoned() {
                set_errno(POISON_ERRNO);
                return -1;
            }
            let r = sim().k.k_kill(Ent::Par(t), pid, sig);
            fin(t, Call::Kill, [pid as i64, sig as i64, 0], r.map(|_| 0)) as c_int
        }
    }
}

#[no_mangle]
pub unsafe extern "C" fn killpg(pgrp: pid_t, sig: c_int) -> c_int {
    match ctx() {
        Ctx::Real => real!(killpg: fn(pid_t, c_int) -> c_int)(pgrp, sig),
        // a process group of the simulation must never reach the real kernel
        _ => kill(-pgrp.abs().max(1), sig),
    }
}

/// stat family and access(): answered from the simulated file system for simulated contexts.
unsafe fn stat_impl(path: *const c_char, want_mode: Option<c_int>) -> Result<u32, i32> {
    if path.is_null() {
        // std's one-time probe "is statx() available?" (expects EFAULT): it happens once per
        // process, so it must leave no trace in the run
        return Err(libc::EFAULT);
    }
    let who = match ctx() {
        Ctx::Par(t) => {
            par_enter(t, Call::Other);
            PARENT_PID
        }
        Ctx::Child => child_ctx().pid,
        Ctx::Real => unreachable!(),
    };
    let p = cstr_bytes(path);
    let s = sim();
    s.k.probe("stat_or_access_by_library");
    let mode = s.k.k_stat(who, &p)?;
    if let Some(m) = want_mode {
        if m & libc::X_OK != 0 && mode & 0o111 == 0 {
            return Err(libc::EACCES);
        }
    }
    Ok(mode)
}

unsafe fn fill_stat(buf: *mut libc::stat, mode: u32) {
    std::ptr::write_bytes(buf as *mut u8, 0, std::mem::size_of::<libc::stat>());
    (*buf).st_mode = mode;
    (*buf).st_nlink = 1;
}

macro_rules! stat_like {
    ($name:ident) => {
        #[no_mangle]
        pub unsafe extern "C" fn $name(path: *const c_char, buf: *mut libc::stat) -> c_int {
            match ctx() {
                Ctx::Real => real!($name: fn(*const c_char, *mut libc::stat) -> c_int)(path, buf),
                _ => {
                    let _g = Guard::new();
                    match stat_impl(path, None) {
                        Ok(m) => {
                            fill_stat(buf, m);
                            0
                        }
                        Err(e) => {
                            set_errno(e);
                            -1
                        }
                    }
                }
            }
        }
    };
}
stat_like!(stat);
stat_like!(stat64);
stat_like!(lstat);
stat_like!(lstat64);

#[no_mangle]
pub unsafe extern "C" fn fstatat(dirfd: c_int, path: *const c_char, buf: *mut libc::stat, flags: c_int) -> c_int {
    match ctx() {
        Ctx::Real => real!(fstatat: fn(c_int, *const c_char, *mut libc::stat, c_int) -> c_int)(dirfd, path, buf, flags),
        _ => {
            let _g = Guard::new();
            match stat_impl(path, None) {
                Ok(m) => {
                    fill_stat(buf, m);
                    0
                }
                Err(e) => {
                    set_errno(e);
                    -1
                }
            }
        }
    }
}

#[no_mangle]
pub unsafe extern "C" fn fstatat64(dirfd: c_int, path: *const c_char, buf: *mut libc::stat, flags: c_int) -> c_int {
    match ctx() {
        Ctx::Real => real!(fstatat64: fn(c_int, *const c_char, *mut libc::stat, c_int) -> c_int)(dirfd, path, buf, flags),
        _ => fstatat(dirfd, path, buf, flags),
    }
}

#[no_mangle]
pub unsafe extern "C" fn statx(dirfd: c_int, path: *const c_char, flags: c_int, mask: libc::c_uint, buf: *mut libc::statx) -> c_int {
    match ctx() {
        Ctx::Real => real!(statx: fn(c_int, *const c_char, c_int, libc::c_uint, *mut libc::statx) -> c_int)(dirfd, path, flags, mask, buf),
        _ => {
            let _g = Guard::new();
            match stat_impl(path, None) {
                Ok(m) => {
                    std::ptr::write_bytes(buf as *mut u8, 0, std::mem::size_of::<libc::statx>());
                    (*buf).stx_mask = libc::STATX_BASIC_STATS;
                    (*buf).stx_mode = m as u16;
                    (*buf).stx_nlink = 1;
                    0
                }
                Err(e) => {
                    set_errno(e);
                    -1
                }
            }
        }
    }
}

/// `realpath` (std::fs::canonicalize) against the simulated file system (no symbolic links there).
#[no_mangle]
pub unsafe extern "C" fn realpath(path: *const c_char, resolved: *mut c_char) -> *mut c_char {
    match ctx() {
        Ctx::Real => real!(realpath: fn(*const c_char, *mut c_char) -> *mut c_char)(path, resolved),
        c => {
            let _g = Guard::new();
            let p = cstr_bytes(path);
            let s = sim();
            let pid = match c {
                Ctx::Child => child_ctx().pid,
                _ => PARENT_PID,
            };
            let r = s.k.k_stat(pid, &p).and_then(|_| {
                let cwd = s.k.proc(pid).cwd.clone();
                s.k.normalize(&cwd, &p)
            });
            match r {
                Ok(full) => {
                    let out = if resolved.is_null() { libc::malloc(full.len() + 1) as *mut c_char } else { resolved };
                    if out.is_null() {
                        set_errno(libc::ENOMEM);
                        return std::ptr::null_mut();
                    }
                    std::ptr::copy_nonoverlapping(full.as_ptr() as *const c_char, out, full.len());
                    *out.add(full.len()) = 0;
                    out
                }
                Err(e) => {
                    set_errno(e);
                    std::ptr::null_mut()
                }
            }
        }
    }
}

#[no_mangle]
pub unsafe extern "C" fn access(path: *const c_char, mode: c_int) -> c_int {
    match ctx() {
        Ctx::Real => real!(access: fn(*const c_char, c_int) -> c_int)(path, mode),
        _ => {
            let _g = Guard::new();
            match stat_impl(path, Some(mode)) {
                Ok(_) => 0,
                Err(e) => {
                    set_errno(e);
                    -1
                }
            }
        }
    }
}

#[no_mangle]
pub unsafe extern "C" fn faccessat(dirfd: c_int, path: *const c_char, mode: c_int, flags: c_int) -> c_int {
    match ctx() {
        Ctx::Real => real!(faccessat: fn(c_int, *const c_char, c_int, c_int) -> c_int)(dirfd, path, mode, flags),
        _ => access(path, mode),
    }
}

unsafe fn exec_impl(path: *const c_char, argv: *const *const c_char, envp: *const *const c_char, explicit: bool, search: bool) -> c_int {
    match ctx() {
        Ctx::Real => {
            if explicit {
                real!(execve: fn(*const c_char, *const *const c_char, *const *const c_char) -> c_int)(path, argv, envp)
            } else if search {
                real!(execvp: fn(*const c_char, *const *const c_char) -> c_int)(path, argv)
            } else {
                real!(execv: fn(*const c_char, *const *const c_char) -> c_int)(path, argv)
            }
        }
        Ctx::Par(t) => {
            let _g = Guard::new();
            sim().harness_error.get_or_insert("exec called in the parent".to_string());
            par_log(t, Call::Exec, [0, 0, 0], -1);
            set_errno(libc::EACCES);
            -1
        }
        Ctx::Child => {
            let _g = Guard::new();
            let p = cstr_bytes(path);
            let args = cvec(argv);
            let env = cvec(if explicit { envp } else { environ });
            if search && !p.contains(&b'/') {
                // POSIX execvp search over PATH (for re-implementations)
                let pathvar = env.iter().find(|e| e.starts_with(b"PATH=")).map(|e| e[5..].to_vec()).unwrap_or_else(|| b"/bin:/usr/bin".to_vec());
                let mut last = libc::ENOENT;
                for dir in pathvar.split(|&b| b == b':') {
                    let mut cand = if dir.is_empty() { b".".to_vec() } else { dir.to_vec() };
                    cand.push(b'/');
                    cand.extend_from_slice(&p);
                    let rec = ExecRecord { path: cand, resolved: vec![], argv: args.clone(), envp_explicit: explicit, env: env.clone() };
                    let (r, e) = child_call(ChildOp::Exec { rec });
                    if r == 0 {
                        unreachable!();
                    }
                    if e != libc::ENOENT && e != libc::ENOTDIR {
                        last = e;
                    }
                }
                set_errno(last);
                return -1;
            }
            let rec = ExecRecord { path: p, resolved: vec![], argv: args, envp_explicit: explicit, env };
            let (_r, e) = child_call(ChildOp::Exec { rec });
            set_errno(e);
            -1
        }
    }
}

#[no_mangle]
pub unsafe extern "C" fn execv(path: *const c_char, argv: *const *const c_char) -> c_int {
    exec_impl(path, argv, std::ptr::null(), false, false)
}

#[no_mangle]
pub unsafe extern "C" fn execve(path: *const c_char, argv: *const *const c_char, envp: *const *const c_char) -> c_int {
    exec_impl(path, argv, envp, true, false)
}

#[no_mangle]
pub unsafe extern "C" fn execvp(path: *const c_char, argv: *const *const c_char) -> c_int {
    exec_impl(path, argv, std::ptr::null(), false, true)
}

#[no_mangle]
pub unsafe extern "C" fn execvpe(path: *const c_char, argv: *const *const c_char, envp: *const *const c_char) -> c_int {
    exec_impl(path, argv, envp, true, true)
}

#[no_mangle]
pub unsafe extern "C" fn _exit(code: c_int) -> ! {
    match ctx() {
        Ctx::Real => {
            libc::syscall(libc::SYS_exit_group, code);
            loop {}
        }
        Ctx::Par(_) => die("_exit called by a registered parent thread"),
        Ctx::Child => {
            let _g = Guard::new();
            child_call(ChildOp::Exit { code });
            finish_child()
        }
    }
}

#[no_mangle]
pub unsafe extern "C" fn chdir(path: *const c_char) -> c_int {
    match ctx() {
        Ctx::Real => real!(chdir: fn(*const c_char) -> c_int)(path),
        Ctx::Child => {
            let _g = Guard::new();
            let (r, e) = child_call(ChildOp::Chdir { path: cstr_bytes(path) });
            if r < 0 {
                set_errno(e);
            }
            r as c_int
        }
        Ctx::Par(t) => {
            let _g = Guard::new();
            par_enter(t, Call::Chdir);
            let p = cstr_bytes(path);
            let s = sim();
            if s.k.in_lib[t as usize] {
                s.k.std_touched.push("chdir in the parent".to_string());
            }
            let r = s.k.k_chdir(PARENT_PID, &p);
            fin(t, Call::Chdir, [0, 0, 0], r.map(|_| 0)) as c_int
        }
    }
}

macro_rules! id_setter {
    ($name:ident, $ty:ty, $op:ident, $call:ident) => {
        #[no_mangle]
        pub unsafe extern "C" fn $name(id: $ty) -> c_int {
            match ctx() {
                Ctx::Real => real!($name: fn($ty) -> c_int)(id),
                Ctx::Child => {
                    let _g = Guard::new();
                    let (r, e) = child_call(ChildOp::$op { id: id as u32 });
                    if r < 0 {
                        set_errno(e);
                    }
                    r as c_int
                }
                Ctx::Par(t) => {
                    let _g = Guard::new();
                    par_enter(t, Call::$call);
                    sim().k.std_touched.push(concat!(stringify!($name), " in the parent").to_string());
                    par_log(t, Call::$call, [id as i64, 0, 0], -1);
                    set_errno(libc::EPERM);
                    -1
                }
            }
        }
    };
}

id_setter!(setuid, libc::uid_t, Setuid, Setuid);
id_setter!(setgid, libc::gid_t, Setgid, Setgid);

/// Supplementary groups are not modelled (no property speaks of them); the call must not reach
/// the real kernel from the forked worker, and it is recorded like any other step of the child.
#[no_mangle]
pub unsafe extern "C" fn setgroups(n: size_t, list: *const libc::gid_t) -> c_int {
    match ctx() {
        Ctx::Real => real!(setgroups: fn(size_t, *const libc::gid_t) -> c_int)(n, list),
        Ctx::Child => {
            let _g = Guard::new();
            child_call(ChildOp::Other { name: "setgroups".into() });
            0
        }
        Ctx::Par(t) => {
            let _g = Guard::new();
            par_enter(t, Call::Setgid);
            sim().k.std_touched.push("setgroups in the parent".to_string());
            par_log(t, Call::Setgid, [n as i64, 0, 0], -1);
            set_errno(libc::EPERM);
            -1
        }
    }
}

#[no_mangle]
pub unsafe extern "C" fn setpgid(pid: pid_t, pgid: pid_t) -> c_int {
    match ctx() {
        Ctx::Real => real!(setpgid: fn(pid_t, pid_t) -> c_int)(pid, pgid),
        Ctx::Child => {
            let _g = Guard::new();
            let (r, e) = child_call(ChildOp::Setpgid { pid, pgid });
            if r < 0 {
                set_errno(e);
            }
            r as c_int
        }
        Ctx::Par(t) => {
            let _g = Guard::new();
            par_enter(t, Call::Setpgid);
            let r = sim().k.k_setpgid(PARENT_PID, pid, pgid);
            fin(t, Call::Setpgid, [pid as i64, pgid as i64, 0], r.map(|_| 0)) as c_int
        }
    }
}

#[no_mangle]
pub unsafe extern "C" fn setsid() -> pid_t {
    match ctx() {
        Ctx::Real => real!(setsid: fn() -> pid_t)(),
        Ctx::Child => {
            let _g = Guard::new();
            child_call(ChildOp::Setsid).0 as pid_t
        }
        Ctx::Par(_) => {
            set_errno(libc::EPERM);
            -1
        }
    }
}

unsafe fn sigmask_impl(how: c_int, set: *const libc::sigset_t, old: *mut libc::sigset_t, pthread: bool) -> c_int {
    match ctx() {
        Ctx::Real => {
            if pthread {
                real!(pthread_sigmask: fn(c_int, *const libc::sigset_t, *mut libc::sigset_t) -> c_int)(how, set, old)
            } else {
                real!(sigprocmask: fn(c_int, *const libc::sigset_t, *mut libc::sigset_t) -> c_int)(how, set, old)
            }
        }
        Ctx::Child => {
            let _g = Guard::new();
            let pid = child_ctx().pid;
            let cur = sim().k.proc(pid).sigmask;
            wrset(old, cur);
            child_call(ChildOp::Sigmask { how, set: rdset(set) });
            0
        }
        Ctx::Par(t) => {
            let _g = Guard::new();
            par_enter(t, Call::Sigmask);
            let s = sim();
            let cur = s.k.par_mask[t as usize];
            wrset(old, cur);
            if let Some(v) = rdset(set) {
                s.k.par_mask[t as usize] = Kernel::apply_mask(cur, how, v);
            }
            par_log(t, Call::Sigmask, [how as i64, rdset(set).unwrap_or(0) as i64, 0], 0);
            0
        }
    }
}

#[no_mangle]
pub unsafe extern "C" fn pthread_sigmask(how: c_int, set: *const libc::sigset_t, old: *mut libc::sigset_t) -> c_int {
    sigmask_impl(how, set, old, true)
}

#[no_mangle]
pub unsafe extern "C" fn sigprocmask(how: c_int, set: *const libc::sigset_t, old: *mut libc::sigset_t) -> c_int {
    sigmask_impl(how, set, old, false)
}

fn disp_of(h: libc::sighandler_t) -> Disp {
    if h == libc::SIG_DFL {
        Disp::Default
    } else if h == libc::SIG_IGN {
        Disp::Ignore
    } else {
        Disp::Handler
    }
}

fn handler_of(d: Disp) -> libc::sighandler_t {
    match d {
        Disp::Default => libc::SIG_DFL,
        Disp::Ignore => libc::SIG_IGN,
        _ => 2 as libc::sighandler_t,
    }
}

#[no_mangle]
pub unsafe extern "C" fn signal(sig: c_int, handler: libc::sighandler_t) -> libc::sighandler_t {
    match ctx() {
        Ctx::Real => real!(signal: fn(c_int, libc::sighandler_t) -> libc::sighandler_t)(sig, handler),
        Ctx::Child => {
            let _g = Guard::new();
            let pid = child_ctx().pid;
            let old = sim().k.proc(pid).disp.get(sig as usize).cloned().unwrap_or(Disp::Default);
            let (r, e) = child_call(ChildOp::Signal { sig, disp: disp_of(handler) });
            if r < 0 {
                set_errno(e);
                return libc::SIG_ERR;
            }
            handler_of(old)
        }
        Ctx::Par(t) => {
            let _g = Guard::new();
            par_enter(t, Call::Signal);
            let s = sim();
            if !(1..=64).contains(&sig) {
                set_errno(libc::EINVAL);
                return libc::SIG_ERR;
            }
            let old = s.k.proc(PARENT_PID).disp[sig as usize];
            s.k.proc_mut(PARENT_PID).disp[sig as usize] = disp_of(handler);
            if s.k.in_lib[t as usize] {
                s.k.std_touched.push(format!("signal({}) changed in the parent", sig));
            }
            par_log(t, Call::Signal, [sig as i64, handler as i64, 0], 0);
            handler_of(old)
        }
    }
}

#[no_mangle]
pub unsafe extern "C" fn sigaction(sig: c_int, act: *const libc::sigaction, old: *mut libc::sigaction) -> c_int {
    match ctx() {
        Ctx::Real => real!(sigaction: fn(c_int, *const libc::sigaction, *mut libc::sigaction) -> c_int)(sig, act, old),
        Ctx::Child => {
            let _g = Guard::new();
            if !(1..=64).contains(&sig) {
                set_errno(libc::EINVAL);
                return -1;
            }
            let pid = child_ctx().pid;
            let cur = sim().k.proc(pid).disp[sig as usize];
            if !old.is_null() {
                std::ptr::write_bytes(old as *mut u8, 0, std::mem::size_of::<libc::sigaction>());
                (*old).sa_sigaction = handler_of(cur);
            }
            if !act.is_null() {
                let (r, e) = child_call(ChildOp::Signal { sig, disp: disp_of((*act).sa_sigaction) });
                if r < 0 {
                    set_errno(e);
                    return -1;
                }
            }
            0
        }
        Ctx::Par(t) => {
            let _g = Guard::new();
            par_enter(t, Call::Signal);
            if !(1..=64).contains(&sig) {
                set_errno(libc::EINVAL);
                return -1;
            }
            let s = sim();
            let cur = s.k.proc(PARENT_PID).disp[sig as usize];
            if !old.is_null() {
                std::ptr::write_bytes(old as *mut u8, 0, std::mem::size_of::<libc::sigaction>());
                (*old).sa_sigaction = handler_of(cur);
            }
            if !act.is_null() {
                s.k.proc_mut(PARENT_PID).disp[sig as usize] = disp_of((*act).sa_sigaction);
                if s.k.in_lib[t as usize] {
                    s.k.std_touched.push(format!("sigaction({}) changed in the parent", sig));
                }
            }
            par_log(t, Call::Signal, [sig as i64, 0, 0], 0);
            0
        }
    }
}

macro_rules! id_getter {
    ($name:ident, $ty:ty, $field:ident) => {
        #[no_mangle]
        pub unsafe extern "C" fn $name() -> $ty {
            match ctx() {
                Ctx::Real => real!($name: fn() -> $ty)(),
                Ctx::Child => sim().k.proc(child_ctx().pid).cred.$field as $ty,
                Ctx::Par(_) => sim().k.proc(PARENT_PID).cred.$field as $ty,
            }
        }
    };
}
id_getter!(getuid, libc::uid_t, ruid);
id_getter!(geteuid, libc::uid_t, euid);
id_getter!(getgid, libc::gid_t, rgid);
id_getter!(getegid, libc::gid_t, egid);

#[no_mangle]
pub unsafe extern "C" fn getpid() -> pid_t {
    match ctx() {
        Ctx::Real => libc::syscall(libc::SYS_getpid) as pid_t,
        Ctx::Child => child_ctx().pid,
        Ctx::Par(_) => PARENT_PID,
    }
}

#[no_mangle]
pub unsafe extern "C" fn getppid() -> pid_t {
    match ctx() {
        Ctx::Real => libc::syscall(libc::SYS_getppid) as pid_t,
        Ctx::Child => PARENT_PID,
        Ctx::Par(_) => 1,
    }
}

// ---- raw system calls ---------------------------------------------------------

/// `syscall(2)` by number.  Everything is passed on to the kernel, except calls that name a
/// process or create one: on the simulated side those would reach the real kernel with simulated
/// process ids.  They answer ENOSYS (a kernel without them - callers fall back to the libc
/// functions, which are interposed); `pidfd_open` first counts as a descriptor allocation, so a
/// full descriptor table (EMFILE) is seen where one would be.
#[no_mangle]
pub unsafe extern "C" fn syscall(num: c_long, a1: c_long, a2: c_long, a3: c_long, a4: c_long, a5: c_long, a6: c_long) -> c_long {
    if !matches!(ctx(), Ctx::Real) {
        let blocked = [
            libc::SYS_pidfd_open,
            libc::SYS_pidfd_send_signal,
            libc::SYS_kill,
            libc::SYS_tkill,
            libc::SYS_tgkill,
            libc::SYS_wait4,
            libc::SYS_waitid,
            libc::SYS_fork,
            libc::SYS_vfork,
            libc::SYS_clone,
            libc::SYS_clone3,
            libc::SYS_execve,
            libc::SYS_execveat,
            libc::SYS_setpgid,
            libc::SYS_getpgid,
            libc::SYS_process_vm_readv,
        ];
        if blocked.contains(&num) {
            let _g = Guard::new();
            if num == libc::SYS_pidfd_open {
                if let (Ctx::Par(_), true) = (ctx(), sim_installed()) {
                    if let Some(e) = sim().k.fdalloc_site() {
                        set_errno(e);
                        return -1;
                    }
                }
            }
            if sim_installed() {
                sim().k.probe("raw_syscall_refused");
            }
            set_errno(libc::ENOSYS);
            return -1;
        }
    }
    raw_syscall(num, a1, a2, a3, a4, a5, a6)
}

/// The system call itself (what the harness uses for its own real children).
pub unsafe fn raw_syscall(num: c_long, a1: c_long, a2: c_long, a3: c_long, a4: c_long, a5: c_long, a6: c_long) -> c_long {
    let ret: c_long;
    core::arch::asm!(
        "syscall",
        inlateout("rax") num => ret,
        in("rdi") a1,
        in("rsi") a2,
        in("rdx") a3,
        in("r10") a4,
        in("r8") a5,
        in("r9") a6,
        lateout("rcx") _,
        lateout("r11") _,
        options(nostack)
    );
    if (-4095..0).contains(&ret) {
        set_errno(-ret as c_int);
        -1
    } else {
        ret
    }
}

// ---- traps: anything else on a simulated descriptor is a harness error ------

fn trap(name: &str) {
    match ctx() {
        Ctx::Real => {}
        _ => {
            let _g = Guard::new();
            if sim_installed() {
                sim().harness_error.get_or_insert(format!("unmodelled libc call `{}` on the simulated side", name));
            }
        }
    }
}

#[no_mangle]
pub unsafe extern "C" fn lseek(fd: c_int, off: i64, whence: c_int) -> i64 {
    if let Ctx::Real = ctx() {
        return real!(lseek: fn(c_int, i64, c_int) -> i64)(fd, off, whence);
    }
    trap("lseek");
    set_errno(libc::ESPIPE);
    -1
}

#[no_mangle]
pub unsafe extern "C" fn lseek64(fd: c_int, off: i64, whence: c_int) -> i64 {
    lseek(fd, off, whence)
}

#[no_mangle]
pub unsafe extern "C" fn fstat(fd: c_int, st: *mut libc::stat) -> c_int {
    if let Ctx::Real = ctx() {
        return real!(fstat: fn(c_int, *mut libc::stat) -> c_int)(fd, st);
    }
    trap("fstat");
    set_errno(libc::EBADF);
    -1
}

#[no_mangle]
pub unsafe extern "C" fn fstat64(fd: c_int, st: *mut libc::stat) -> c_int {
    fstat(fd, st)
}

#[no_mangle]
pub unsafe extern "C" fn readv(fd: c_int, iov: *const libc::iovec, n: c_int) -> ssize_t {
    if let Ctx::Real = ctx() {
        return real!(readv: fn(c_int, *const libc::iovec, c_int) -> ssize_t)(fd, iov, n);
    }
    if n >= 1 {
        return read(fd, (*iov).iov_base, (*iov).iov_len);
    }
    0
}

#[no_mangle]
pub unsafe extern "C" fn writev(fd: c_int, iov: *const libc::iovec, n: c_int) -> ssize_t {
    if let Ctx::Real = ctx() {
        return real!(writev: fn(c_int, *const libc::iovec, c_int) -> ssize_t)(fd, iov, n);
    }
    if n >= 1 {
        return write(fd, (*iov).iov_base, (*iov).iov_len);
    }
    0
}

#[no_mangle]
pub unsafe extern "C" fn posix_spawn(_pid: *mut pid_t, _path: *const c_char, _fa: *const c_void, _attr: *const c_void, _argv: *const *const c_char, _envp: *const *const c_char) -> c_int {
    if let Ctx::Real = ctx() {
        // the harness's own business (re-running itself for a replay with its prelude)
        return real!(posix_spawn: fn(*mut pid_t, *const c_char, *const c_void, *const c_void, *const *const c_char, *const *const c_char) -> c_int)(_pid, _path, _fa, _attr, _argv, _envp);
    }
    trap("posix_spawn");
    libc::ENOSYS
}

#[no_mangle]
pub unsafe extern "C" fn posix_spawnp(_pid: *mut pid_t, _path: *const c_char, _fa: *const c_void, _attr: *const c_void, _argv: *const *const c_char, _envp: *const *const c_char) -> c_int {
    if let Ctx::Real = ctx() {
        // the harness's own business (re-running itself for a replay with its prelude)
        return real!(posix_spawnp: fn(*mut pid_t, *const c_char, *const c_void, *const c_void, *const *const c_char, *const *const c_char) -> c_int)(_pid, _path, _fa, _attr, _argv, _envp);
    }
    trap("posix_spawnp");
    libc::ENOSYS
}

//! The simulated kernel: descriptors, open file descriptions, pipes, files,
//! processes, credentials, signals, a tiny file system, the virtual clock and
//! the event log.  Plain data + the semantics of each call ("try" form: a
//! call either completes or says what it would block on).  No scheduling
//! here (see sim.rs).

use serde::{Deserialize, Serialize};
use std::collections::BTreeMap;

pub const PIPE_BUF: usize = 4096;
pub const PARENT_PID: i32 = 50;

pub const POLLIN: i16 = 0x001;
pub const POLLOUT: i16 = 0x004;
pub const POLLERR: i16 = 0x008;
pub const POLLHUP: i16 = 0x010;
pub const POLLNVAL: i16 = 0x020;

pub const SIGKILL: i32 = 9;
pub const SIGPIPE: i32 = 13;
pub const SIGTERM: i32 = 15;
pub const SIGCHLD: i32 = 17;
pub const SIGCONT: i32 = 18;
pub const SIGSTOP: i32 = 19;

#[derive(Clone, Copy, Debug, PartialEq, Eq, Hash, PartialOrd, Ord, Serialize, Deserialize)]
pub enum Ent {
    Par(u8),
    Proc(i32),
    Env,
    Harness,
}

#[derive(Clone, Copy, Debug, PartialEq, Eq, Hash, Serialize, Deserialize)]
#[repr(u8)]
pub enum Call {
    Pipe,
    Close,
    Dup,
    Dup2,
    Fcntl,
    Read,
    Write,
    Poll,
    Open,
    ClockGet,
    Sleep,
    Fork,
    Waitpid,
    Kill,
    Sigmask,
    Signal,
    Chdir,
    Setuid,
    Setgid,
    Setpgid,
    Exec,
    Exit,
    Getpid,
    ProcStep,
    EnvReap,
    EnvSpawn,
    Stall,
    ClockJump,
    ThreadStart,
    ThreadExit,
    Mark,
    Blocked,
    Other,
}

#[derive(Clone, Debug, Serialize)]
pub struct Event {
    pub seq: u64,
    pub t: u64,
    pub who: Ent,
    pub call: Call,
    pub a: [i64; 3],
    pub ret: i64,
    /// true while the calling parent thread is inside a library API call
    pub in_lib: bool,
}

#[derive(Clone, Copy, Debug, PartialEq, Eq)]
pub enum Origin {
    Boot,
    Harness,
    /// created while a parent thread was inside a library call (seq of creation)
    Lib,
    Child,
}

#[derive(Clone, Copy, Debug, PartialEq, Eq)]
pub enum DescKind {
    PipeR(usize),
    PipeW(usize),
    File(usize),
    Null,
    Tty(u8),
}

#[derive(Clone, Debug)]
pub struct Desc {
    pub kind: DescKind,
    pub refs: u32,
    pub offset: u64,
    pub append: bool,
    pub origin: Origin,
    /// file status flags of the open file description that F_SETFL can change (O_NONBLOCK, ...):
    /// shared by every descriptor, in every process, that refers to it
    pub status: i32,
}

#[derive(Clone, Debug)]
pub struct Pipe {
    /// every byte ever written, in order
    pub hist: Vec<u8>,
    /// read position: buffered content is hist[rpos..]
    pub rpos: usize,
    pub cap: usize,
    /// Linux keeps a ring of page-sized buffers: (offset of the first unread byte within the page, unread length)
    pub slots: std::collections::VecDeque<(usize, usize)>,
    pub max_slots: usize,
    pub rdesc: usize,
    pub wdesc: usize,
    pub r_open: bool,
    pub w_open: bool,
    pub origin: Origin,
    /// virtual time at which the last writer went away
    pub w_closed_at: Option<u64>,
    /// was the pipe ever completely full
    pub was_full: bool,
    /// label given by the harness after the fact ("stdin#0", ...)
    pub label: String,
    /// writes by the parent process: (event seq before the write, cumulative length after it)
    pub wlog: Vec<(u64, usize)>,
    /// parent thread that created the pipe
    pub creator: Option<u8>,
    pub w_closed_seq: Option<u64>,
    pub r_closed_seq: Option<u64>,
}

pub const PAGE: usize = 4096;

impl Pipe {
    pub fn avail(&self) -> usize {
        self.hist.len() - self.rpos
    }
    pub fn slot_free(&self) -> bool {
        self.slots.len() < self.max_slots
    }
    /// can `rem` (< PAGE) bytes be appended to the last buffer?
    pub fn can_merge(&self, rem: usize) -> bool {
        match self.slots.back() {
            Some((off, len)) => rem > 0 && off + len + rem <= PAGE,
            None => false,
        }
    }
    /// Append as Linux' pipe_write does; returns the number of bytes taken.
    pub fn push(&mut self, data: &[u8]) -> usize {
        let mut taken = 0;
        let rem = data.len() % PAGE;
        if rem > 0 && self.can_merge(rem) {
            let b = self.slots.back_mut().unwrap();
            b.1 += rem;
            taken += rem;
        }
        while taken < data.len() && self.slot_free() {
            let n = (data.len() - taken).min(PAGE);
            self.slots.push_back((0, n));
            taken += n;
        }
        self.hist.extend_from_slice(&data[..taken]);
        taken
    }
    /// Consume n bytes from the head buffers.
    pub fn pop(&mut self, mut n: usize) {
        self.rpos += n;
        while n > 0 {
            let b = self.slots.front_mut().expect("pipe slots out of sync");
            let k = n.min(b.1);
            b.0 += k;
            b.1 -= k;
            n -= k;
            if b.1 == 0 {
                self.slots.pop_front();
            }
        }
    }
}

#[derive(Clone, Debug, Default)]
pub struct FileObj {
    pub data: Vec<u8>,
    pub label: String,
}

#[derive(Clone, Copy, Debug, PartialEq, Eq)]
pub struct FdEnt {
    pub desc: usize,
    pub cloexec: bool,
}

#[derive(Clone, Copy, Debug, PartialEq, Eq, Serialize, Deserialize)]
pub struct Cred {
    pub ruid: u32,
    pub euid: u32,
    pub suid: u32,
    pub rgid: u32,
    pub egid: u32,
    pub sgid: u32,
}

impl Cred {
    pub fn root() -> Cred {
        Cred { ruid: 0, euid: 0, suid: 0, rgid: 0, egid: 0, sgid: 0 }
    }
    pub fn user(uid: u32, gid: u32) -> Cred {
        Cred { ruid: uid, euid: uid, suid: uid, rgid: gid, egid: gid, sgid: gid }
    }
}

#[derive(Clone, Copy, Debug, PartialEq, Eq, Serialize, Deserialize)]
pub enum Disp {
    Default,
    Ignore,
    /// a handler installed by the parent program (reset to default by exec)
    Handler,
    /// script handler: exit with this code
    ExitWith(i32),
    /// script handler: just count
    Count,
}

#[derive(Clone, Debug, PartialEq, Eq, Serialize, Deserialize)]
pub struct ExecRecord {
    pub path: Vec<u8>,
    pub resolved: Vec<u8>,
    pub argv: Vec<Vec<u8>>,
    /// None = execv (environ of the caller), marshalled anyway in `env`
    pub envp_explicit: bool,
    pub env: Vec<Vec<u8>>,
}

#[derive(Clone, Debug, PartialEq, Eq, Serialize, Deserialize)]
pub enum ChildOp {
    Close { fd: i32 },
    Dup2 { old: i32, new: i32 },
    Dup { old: i32 },
    Fcntl { fd: i32, cmd: i32, arg: i64 },
    Chdir { path: Vec<u8> },
    Setuid { id: u32 },
    Setgid { id: u32 },
    Setpgid { pid: i32, pgid: i32 },
    Setsid,
    Sigmask { how: i32, set: Option<u64> },
    Signal { sig: i32, disp: Disp },
    Exec { rec: ExecRecord },
    Write { fd: i32, data: Vec<u8> },
    Read { fd: i32, n: usize },
    Exit { code: i32 },
    /// library code returned or unwound in the forked child
    Escaped { how: String },
    /// nanosleep() and friends between fork and exec
    Sleep { ns: u64 },
    Other { name: String },
}

#[derive(Clone, Debug, PartialEq, Eq, Serialize, Deserialize)]
pub struct ChildCall {
    pub op: ChildOp,
    pub ret: i64,
    pub errno: i32,
}

#[derive(Clone, Debug, Default, Serialize, Deserialize)]
pub struct ChildReport {
    pub calls: Vec<ChildCall>,
    pub alloc_count: u64,
    pub alloc_sizes: Vec<usize>,
    pub dealloc_count: u64,
}

#[derive(Clone, Debug, PartialEq)]
pub enum PState {
    /// forked, pre-exec calls recorded by the fork bridge not yet applied
    PreExec,
    Running,
    Sleeping { until: u64 },
    Zombie { status: i32 },
    Reaped,
}

#[derive(Clone, Copy, Debug, PartialEq, Eq)]
pub enum ExitCause {
    Code(i32),
    Signal(i32),
}

#[derive(Clone, Copy, Debug, PartialEq, Eq)]
pub enum PKind {
    Parent,
    /// started by the library (n-th fork of the run)
    Child(usize),
    Descendant,
    Bystander,
}

#[derive(Clone, Debug, Default)]
pub struct RxLog {
    pub data: Vec<u8>,
    pub eof_at: Option<u64>,
    pub eof_seq: Option<u64>,
}

#[derive(Clone, Debug)]
pub struct Proc {
    pub pid: i32,
    pub ppid: i32,
    pub kind: PKind,
    pub fds: BTreeMap<i32, FdEnt>,
    pub cred: Cred,
    pub cwd: Vec<u8>,
    pub pgid: i32,
    pub sigmask: u64,
    pub pending: u64,
    pub disp: Vec<Disp>, // index 0..=64
    pub state: PState,
    pub stopped: bool,
    /// stop signal not yet reported to a waitpid(WUNTRACED) (0 = nothing to report)
    pub stop_unreported: i32,
    /// continued, not yet reported to a waitpid(WCONTINUED)
    pub cont_unreported: bool,
    pub report: Option<ChildReport>,
    pub exec: Option<ExecRecord>,
    /// descriptor table right after exec (fd -> desc)
    pub exec_fds: BTreeMap<i32, usize>,
    pub exec_mask: u64,
    pub exec_sigpipe: Option<Disp>,
    pub exec_cred: Option<Cred>,
    pub exec_cwd: Vec<u8>,
    pub exec_pgid: i32,
    pub exec_at: Option<u64>,
    pub exec_seq: Option<u64>,
    pub prog: Vec<crate::prog::Op>,
    pub prog_id: Option<usize>,
    pub cur: crate::prog::Cursor,
    pub rx: BTreeMap<i32, RxLog>,
    pub tx_bytes: BTreeMap<i32, u64>,
    /// what was written to fd 2 (bounded), for the stderr-sink oracle
    pub tx_data: BTreeMap<i32, Vec<u8>>,
    pub epipes: u32,
    pub exit_cause: Option<ExitCause>,
    pub exit_at: Option<u64>,
    pub exit_seq: Option<u64>,
    pub reaped_by: Option<Ent>,
    /// event sequence number at which it was reaped
    pub reaped_seq: u64,
    pub signals_got: Vec<(i32, Ent)>,
    pub escaped: Option<String>,
    pub launch_failed: bool,
    pub steps: u64,
    /// index of the next fault-eligible pre-exec call / exec candidate
    pub cc_idx: u32,
    pub exec_idx: u32,
    /// parent thread that forked this process
    pub forked_by: Option<u8>,
    /// between fork and exec: index of the next recorded call to apply, and the time until which
    /// the process sleeps (it called nanosleep() there) before going on
    pub preexec_pos: usize,
    pub preexec_wake: Option<u64>,
}

#[derive(Clone, Debug, PartialEq, Eq, Serialize, Deserialize)]
pub enum Node {
    Dir { searchable: bool },
    Exe { prog: usize },
    /// regular file without execute permission
    NoExec,
    /// executable bit set but not a valid image
    NotBinary,
    /// symlink loop
    Loop,
}

#[derive(Clone, Debug, Default, Serialize, Deserialize)]
pub struct FaultPlan {
    /// (n-th fd allocation (pipe/dup/open), errno)
    pub fdalloc: Option<(u32, i32)>,
    /// (n-th fcntl(F_SETFD), errno)
    pub fcntl_setfd: Option<(u32, i32)>,
    /// (n-th fork, errno)
    pub fork: Option<(u32, i32)>,
    /// (spawn index, call index among child-side calls excluding exec, errno)
    pub child_step: Option<(u32, u32, i32)>,
    /// (spawn index, exec candidate index, errno)
    pub exec_errno: Vec<(u32, u32, i32)>,
    /// per-mille probability of a short read / short write on parent pipe I/O
    pub short_read_pm: u32,
    pub short_write_pm: u32,
    /// per-mille probability of a stall at a scheduling point
    pub stall_pm: u32,
    /// upper bound of timer lateness
    pub timer_late_ns: u64,
    /// kill child (spawn idx) with this signal after it made this many steps
    pub child_death: Option<(u32, u64, i32)>,
    /// a foreign reaper exists in the parent process
    pub foreign_reap: bool,
    /// bystander processes get created (pid reuse)
    pub bystanders: bool,
    /// a signal with a (do-nothing) handler arrives while the parent is blocked inside a library
    /// call: the n-th (1-based) .. n+count-1-th time a call of a kind in `mask` would block, it
    /// fails with EINTR instead.  mask: 1 = poll (never restarted), 2 = read/write on a pipe,
    /// 4 = waitpid (both only for handlers installed without SA_RESTART)
    #[serde(default)]
    pub eintr: Option<(u32, u32, u8)>,
    /// a forked child whose launch failed takes this long from reporting the failure to being
    /// gone (a big process is not torn down in an instant): whoever reaps it has to wait for it
    #[serde(default)]
    pub exit_lag_ns: u64,
    /// the n-th kill() made inside a library call fails with this errno and delivers nothing
    /// (EPERM: the child runs under another identity and the caller has lost the right to signal it)
    #[serde(default)]
    pub kill_fail: Option<(u32, i32)>,
    /// a fatal signal sent by the parent takes this long to turn the target into a zombie (it is
    /// delivered when the target next runs; a big process is not torn down in an instant):
    /// kill() has returned, the child is doomed, but waitpid(WNOHANG) does not see it yet
    #[serde(default)]
    pub kill_lag_ns: u64,
}

#[derive(Clone, Debug, Default)]
pub struct FaultCount {
    pub fired: BTreeMap<&'static str, u64>,
}

impl FaultCount {
    pub fn hit(&mut self, k: &'static str) {
        *self.fired.entry(k).or_insert(0) += 1;
    }
}

pub struct Kernel {
    pub now: u64,
    pub seq: u64,
    /// bumped whenever anything other than the clock changes
    pub gen: u64,
    pub descs: Vec<Desc>,
    pub pipes: Vec<Pipe>,
    pub files: Vec<FileObj>,
    pub procs: BTreeMap<i32, Proc>,
    /// all processes that ever existed, by creation order (pid may repeat)
    pub graveyard: Vec<Proc>,
    pub pid_lo: i32,
    pub pid_hi: i32,
    pub next_pid: i32,
    pub fs: BTreeMap<Vec<u8>, Node>,
    pub programs: Vec<Vec<crate::prog::Op>>,
    pub pipe_caps: Vec<usize>,
    pub pipes_made: usize,
    pub faults: FaultPlan,
    pub fcount: FaultCount,
    pub n_fdalloc: u32,
    pub n_fcntl_setfd: u32,
    pub n_fork: u32,
    pub n_spawned: usize,
    pub log: Vec<Event>,
    pub log_cap: usize,
    pub log_hash: u64,
    pub trace_hash: u64,
    pub in_lib: [bool; 8],
    pub probes: BTreeMap<&'static str, u64>,
    /// per parent thread signal mask
    pub par_mask: [u64; 8],
    /// calls on fds 0..2 in parent context (C05)
    /// would-block events of parent threads inside library calls, per kind mask (EINTR injection)
    pub n_wouldblock: u32,
    pub n_kill_in_lib: u32,
    pub std_touched: Vec<String>,
    /// lowest number for files opened by the harness (the caller of the library)
    pub harness_fd_min: i32,
    /// EBADF answered to the parent inside a library call
    pub ebadf: Vec<String>,
    pub kill_log: Vec<KillRec>,
    pub wait_log: Vec<WaitRec>,
    /// spawn index of the last fork made by each parent thread
    pub last_fork_of_thread: [Option<usize>; 8],
}

#[derive(Clone, Debug)]
pub struct KillRec {
    pub seq: u64,
    pub t: u64,
    pub who: Ent,
    pub pid: i32,
    pub sig: i32,
    pub ret: i32,
    /// what the pid referred to at that instant
    pub target: KillTarget,
    pub in_lib: bool,
}

#[derive(Clone, Copy, Debug, PartialEq, Eq)]
pub enum KillTarget {
    LiveChild(usize),
    ZombieChild(usize),
    Bystander,
    Nobody,
    Group,
    Other,
}

#[derive(Clone, Debug)]
pub struct WaitRec {
    pub seq: u64,
    pub t: u64,
    pub who: Ent,
    pub pid: i32,
    pub flags: i32,
    pub ret: i32,
    pub status: i32,
    pub in_lib: bool,
}

pub enum Blk {
    /// would block
    Block,
    Err(i32),
}

pub type KRes<T> = Result<T, Blk>;

fn sig_bit(sig: i32) -> u64 {
    if (1..=64).contains(&sig) {
        1u64 << (sig - 1)
    } else {
        0
    }
}

#[derive(Clone, Copy, PartialEq, Eq, Debug)]
pub enum DefAct {
    Term,
    Core,
    Ign,
    Stop,
    Cont,
}

pub fn default_action(sig: i32) -> DefAct {
    match sig {
        17 | 23 | 28 => DefAct::Ign,
        19 | 20 | 21 | 22 => DefAct::Stop,
        18 => DefAct::Cont,
        3 | 4 | 5 | 6 | 7 | 8 | 11 | 24 | 25 | 31 => DefAct::Core,
        _ => DefAct::Term,
    }
}

pub fn wstatus_exit(code: i32) -> i32 {
    (code & 0xff) << 8
}
pub fn wstatus_sig(sig: i32) -> i32 {
    let core = default_action(sig) == DefAct::Core;
    (sig & 0x7f) | if core { 0x80 } else { 0 }
}

impl Kernel {
    pub fn new(pipe_caps: Vec<usize>, pid_span: i32) -> Kernel {
        let mut k = Kernel {
            now: 1_000_000_000,
            seq: 0,
            gen: 0,
            descs: vec![],
            pipes: vec![],
            files: vec![],
            procs: BTreeMap::new(),
            graveyard: vec![],
            pid_lo: 100,
            pid_hi: 100 + pid_span.max(2),
            next_pid: 100,
            fs: BTreeMap::new(),
            programs: vec![],
            pipe_caps: if pipe_caps.is_empty() { vec![65536] } else { pipe_caps },
            pipes_made: 0,
            faults: FaultPlan::default(),
            fcount: FaultCount::default(),
            n_fdalloc: 0,
            n_fcntl_setfd: 0,
            n_fork: 0,
            n_spawned: 0,
            log: vec![],
            log_cap: 400_000,
            log_hash: 0x1234_5678_9abc_def0,
            trace_hash: 0xfeed_f00d_dead_beef,
            in_lib: [false; 8],
            probes: BTreeMap::new(),
            par_mask: [0; 8],
            n_wouldblock: 0,
            n_kill_in_lib: 0,
            std_touched: vec![],
            harness_fd_min: 3,
            ebadf: vec![],
            kill_log: vec![],
            wait_log: vec![],
            last_fork_of_thread: [None; 8],
        };
        // the parent process with its three inherited terminal streams
        let mut p = Proc::blank(PARENT_PID, 1, PKind::Parent);
        p.state = PState::Running;
        for i in 0..3u8 {
            let d = k.new_desc(DescKind::Tty(i), Origin::Boot);
            k.descs[d].refs = 1;
            p.fds.insert(i as i32, FdEnt { desc: d, cloexec: false });
        }
        // Rust's runtime ignores SIGPIPE
        p.disp[SIGPIPE as usize] = Disp::Ignore;
        p.cwd = b"/work".to_vec();
        k.procs.insert(PARENT_PID, p);
        k.fs.insert(b"/".to_vec(), Node::Dir { searchable: true });
        k.fs.insert(b"/work".to_vec(), Node::Dir { searchable: true });
        k.fs.insert(b"/dev".to_vec(), Node::Dir { searchable: true });
        k
    }

    pub fn probe(&mut self, name: &'static str) {
        *self.probes.entry(name).or_insert(0) += 1;
    }

    pub fn ev(&mut self, who: Ent, call: Call, a: [i64; 3], ret: i64) {
        self.seq += 1;
        let in_lib = match who {
            Ent::Par(t) => self.in_lib[t as usize],
            _ => false,
        };
        // rolling hash over everything
        let mut h = self.log_hash;
        let who_code: u64 = match who {
            Ent::Par(t) => 1000 + t as u64,
            Ent::Proc(p) => 2000 + p as u64,
            Ent::Env => 1,
            Ent::Harness => 2,
        };
        for v in [who_code, call as u64, a[0] as u64, a[1] as u64, a[2] as u64, ret as u64, self.now] {
            h = (h ^ v).wrapping_mul(0x100000001b3).rotate_left(23);
        }
        self.log_hash = h;
        // shape hash: who/call/result class only (for "distinct interleavings")
        let cls: u64 = if ret < 0 { 2 } else if ret == 0 { 0 } else { 1 };
        let mut th = self.trace_hash;
        for v in [who_code, call as u64, cls] {
            th = (th ^ v).wrapping_mul(0x100000001b3).rotate_left(17);
        }
        self.trace_hash = th;
        let keep = !matches!(who, Ent::Proc(_)) || self.log.len() < 2000 || call != Call::ProcStep;
        if keep && self.log.len() < self.log_cap {
            self.log.push(Event { seq: self.seq, t: self.now, who, call, a, ret, in_lib });
        }
    }

    pub fn touch(&mut self) {
        self.gen += 1;
    }

    // ---- descriptions ----------------------------------------------------

    pub fn new_desc(&mut self, kind: DescKind, origin: Origin) -> usize {
        self.descs.push(Desc { kind, refs: 0, offset: 0, append: false, origin, status: 0 });
        self.descs.len() - 1
    }

    pub fn incref(&mut self, d: usize) {
        self.descs[d].refs += 1;
    }

    pub fn decref(&mut self, d: usize) {
        assert!(self.descs[d].refs > 0, "desc refcount underflow");
        self.descs[d].refs -= 1;
        if self.descs[d].refs == 0 {
            match self.descs[d].kind {
                DescKind::PipeR(p) => {
                    self.pipes[p].r_open = false;
                    self.pipes[p].r_closed_seq = Some(self.seq);
                }
                DescKind::PipeW(p) => {
                    self.pipes[p].w_open = false;
                    self.pipes[p].w_closed_at = Some(self.now);
                    self.pipes[p].w_closed_seq = Some(self.seq);
                }
                _ => {}
            }
        }
        self.touch();
    }

    pub fn proc(&self, pid: i32) -> &Proc {
        self.procs.get(&pid).expect("no such proc")
    }
    pub fn proc_mut(&mut self, pid: i32) -> &mut Proc {
        self.procs.get_mut(&pid).expect("no such proc")
    }

    fn lowest_free(&self, pid: i32, min: i32) -> i32 {
        let p = self.proc(pid);
        let mut fd = min;
        while p.fds.contains_key(&fd) {
            fd += 1;
        }
        fd
    }

    pub fn install(&mut self, pid: i32, desc: usize, cloexec: bool, min: i32) -> i32 {
        let fd = self.lowest_free(pid, min);
        self.incref(desc);
        self.proc_mut(pid).fds.insert(fd, FdEnt { desc, cloexec });
        fd
    }

    /// faults are only injected into calls made inside a library call
    pub fn armed(&self) -> bool {
        self.in_lib.iter().any(|b| *b)
    }

    /// a descriptor-allocating call that is not modelled any further (pidfd_open, ...): it counts
    /// as an allocation site for the `alloc_fd_fail` fault
    pub fn fdalloc_site(&mut self) -> Option<i32> {
        self.fdalloc_fault()
    }

    fn fdalloc_fault(&mut self) -> Option<i32> {
        if !self.armed() {
            return None;
        }
        self.n_fdalloc += 1;
        if let Some((n, e)) = self.faults.fdalloc {
            if n == self.n_fdalloc {
                self.fcount.hit("alloc_fd_fail");
                return Some(e);
            }
        }
        None
    }

    pub fn origin_for(&self, who: Ent) -> Origin {
        match who {
            Ent::Par(t) => {
                if self.in_lib[t as usize] {
                    Origin::Lib
                } else {
                    Origin::Harness
                }
            }
            Ent::Proc(_) => Origin::Child,
            _ => Origin::Harness,
        }
    }

    pub fn k_pipe(&mut self, pid: i32, who: Ent, cloexec: bool) -> Result<(i32, i32), i32> {
        if let Some(e) = self.fdalloc_fault() {
            return Err(e);
        }
        let origin = self.origin_for(who);
        let cap = self.pipe_caps[self.pipes_made % self.pipe_caps.len()];
        self.pipes_made += 1;
        let pi = self.pipes.len();
        let rd = self.new_desc(DescKind::PipeR(pi), origin);
        let wd = self.new_desc(DescKind::PipeW(pi), origin);
        self.pipes.push(Pipe {
            hist: vec![],
            rpos: 0,
            cap,
            slots: Default::default(),
            max_slots: (cap / PAGE).max(1),
            rdesc: rd,
            wdesc: wd,
            r_open: true,
            w_open: true,
            origin,
            w_closed_at: None,
            was_full: false,
            label: String::new(),
            wlog: vec![],
            creator: match who {
                Ent::Par(t) => Some(t),
                _ => None,
            },
            w_closed_seq: None,
            r_closed_seq: None,
        });
        let r = self.install(pid, rd, cloexec, 0);
        let w = self.install(pid, wd, cloexec, 0);
        self.touch();
        Ok((r, w))
    }

    pub fn k_close(&mut self, pid: i32, fd: i32) -> Result<(), i32> {
        let ent = self.proc_mut(pid).fds.remove(&fd);
        match ent {
            None => Err(libc::EBADF),
            Some(e) => {
                self.decref(e.desc);
                Ok(())
            }
        }
    }

    pub fn k_dup2(&mut self, pid: i32, old: i32, new: i32) -> Result<i32, i32> {
        let src = match self.proc(pid).fds.get(&old) {
            None => return Err(libc::EBADF),
            Some(e) => *e,
        };
        if new < 0 {
            return Err(libc::EBADF);
        }
        if old == new {
            return Ok(new);
        }
        self.incref(src.desc);
        let prev = self.proc_mut(pid).fds.insert(new, FdEnt { desc: src.desc, cloexec: false });
        if let Some(p) = prev {
            self.decref(p.desc);
        }
        self.touch();
        Ok(new)
    }

    pub fn k_dupfd(&mut self, pid: i32, old: i32, min: i32, cloexec: bool) -> Result<i32, i32> {
        let src = match self.proc(pid).fds.get(&old) {
            None => return Err(libc::EBADF),
            Some(e) => *e,
        };
        if let Some(e) = self.fdalloc_fault() {
            return Err(e);
        }
        Ok(self.install(pid, src.desc, cloexec, min))
    }

    pub fn k_fcntl(&mut self, pid: i32, fd: i32, cmd: i32, arg: i64) -> Result<i32, i32> {
        if !self.proc(pid).fds.contains_key(&fd) {
            return Err(libc::EBADF);
        }
        match cmd {
            libc::F_GETFD => Ok(if self.proc(pid).fds[&fd].cloexec { libc::FD_CLOEXEC } else { 0 }),
            libc::F_SETFD => {
                if self.armed() {
                    self.n_fcntl_setfd += 1;
                }
                if let (Some((n, e)), true) = (self.faults.fcntl_setfd, self.armed()) {
                    if n == self.n_fcntl_setfd {
                        self.fcount.hit("fcntl_fail");
                        return Err(e);
                    }
                }
                self.proc_mut(pid).fds.get_mut(&fd).unwrap().cloexec = arg as i32 & libc::FD_CLOEXEC != 0;
                self.touch();
                Ok(0)
            }
            libc::F_GETFL => {
                let d = self.proc(pid).fds[&fd].desc;
                Ok(match self.descs[d].kind {
                    DescKind::PipeR(_) => libc::O_RDONLY,
                    DescKind::PipeW(_) => libc::O_WRONLY,
                    _ => libc::O_RDWR,
                } | self.descs[d].status)
            }
            libc::F_SETFL => {
                // only these can be changed after open(); the access mode is ignored
                let settable = libc::O_NONBLOCK | libc::O_APPEND | libc::O_ASYNC | libc::O_DIRECT | libc::O_NOATIME;
                let d = self.proc(pid).fds[&fd].desc;
                let new = arg as i32 & settable;
                let old = self.descs[d].status;
                if new != old {
                    self.descs[d].status = new;
                    if self.descs[d].origin == Origin::Boot {
                        // whoever does it, parent or forked child: the description is the parent's own
                        self.std_touched.push(format!("F_SETFL(status_flags {:#o}->{:#o}) on the open file of the parent's own standard stream, by process {}", old, new, pid));
                    }
                    self.touch();
                }
                Ok(0)
            }
            libc::F_DUPFD => self.k_dupfd(pid, fd, arg as i32, false),
            libc::F_DUPFD_CLOEXEC => self.k_dupfd(pid, fd, arg as i32, true),
            _ => Err(libc::EINVAL),
        }
    }

    pub fn desc_of(&self, pid: i32, fd: i32) -> Option<usize> {
        self.procs.get(&pid).and_then(|p| p.fds.get(&fd)).map(|e| e.desc)
    }

    /// Open a registered path. Only /dev/null and harness-registered data files.
    pub fn k_open(&mut self, pid: i32, who: Ent, path: &[u8], flags: i32) -> Result<i32, i32> {
        let origin = self.origin_for(who);
        let cloexec = flags & libc::O_CLOEXEC != 0;
        if path == b"/dev/null" {
            if let Some(e) = self.fdalloc_fault() {
                return Err(e);
            }
            let d = self.new_desc(DescKind::Null, origin);
            return Ok(self.install(pid, d, cloexec, 0));
        }
        // procfs, as far as a program may consult it about its children: /proc/<pid>/stat
        if let Some(rest) = path.strip_prefix(b"/proc/") {
            if let Some(num) = rest.strip_suffix(b"/stat") {
                let target = std::str::from_utf8(num).ok().and_then(|n| n.parse::<i32>().ok());
                let line = target.and_then(|tp| self.procs.get(&tp)).filter(|p| !matches!(p.state, PState::Reaped)).map(|p| {
                    // the command name is the file name of the executable, cut to 15 bytes, in
                    // parentheses - whatever characters it is made of
                    let comm: Vec<u8> = match &p.exec {
                        Some(rec) => rec.resolved.rsplit(|&b| b == b'/').next().unwrap_or(b"").iter().take(15).cloned().collect(),
                        None => b"subsim".to_vec(),
                    };
                    let st = match p.state {
                        PState::Zombie { .. } => 'Z',
                        _ if p.stopped => 'T',
                        PState::Sleeping { .. } => 'S',
                        _ => 'R',
                    };
                    let mut l = format!("{} (", p.pid).into_bytes();
                    l.extend_from_slice(&comm);
                    l.extend_from_slice(format!(") {} {} {} {} 0 -1 4194304 0 0 0 0 0 0 0 0 20 0 1 0 100 0 0\n", st, p.ppid, p.pgid, p.pgid).as_bytes());
                    l
                });
                return match line {
                    None => Err(libc::ENOENT),
                    Some(data) => {
                        if let Some(e) = self.fdalloc_fault() {
                            return Err(e);
                        }
                        self.probe("procfs_stat_read");
                        self.files.push(FileObj { data, label: "(procfs)".into() });
                        let d = self.new_desc(DescKind::File(self.files.len() - 1), origin);
                        Ok(self.install(pid, d, cloexec, 0))
                    }
                };
            }
        }
        if let Some(idx) = self.files.iter().position(|f| f.label.as_bytes() == path) {
            if let Some(e) = self.fdalloc_fault() {
                return Err(e);
            }
            let d = self.new_desc(DescKind::File(idx), origin);
            if flags & libc::O_APPEND != 0 {
                self.descs[d].append = true;
            }
            if flags & libc::O_TRUNC != 0 {
                self.files[idx].data.clear();
            }
            return Ok(self.install(pid, d, cloexec, 0));
        }
        Err(libc::ENOENT)
    }

    /// Create a new regular file object and open it in `pid`.
    pub fn mk_file(&mut self, pid: i32, label: &str, data: Vec<u8>, cloexec: bool) -> i32 {
        self.files.push(FileObj { data, label: label.to_string() });
        let d = self.new_desc(DescKind::File(self.files.len() - 1), Origin::Harness);
        let min = self.harness_fd_min;
        self.install(pid, d, cloexec, min)
    }

    // ---- read / write ------------------------------------------------------

    /// Readable without blocking? (data, EOF, or error)
    pub fn readable(&self, desc: usize) -> bool {
        match self.descs[desc].kind {
            DescKind::PipeR(p) => self.pipes[p].avail() > 0 || !self.pipes[p].w_open,
            _ => true,
        }
    }

    /// Can a blocking write of n bytes make progress now?
    pub fn writable(&self, desc: usize, n: usize) -> bool {
        match self.descs[desc].kind {
            DescKind::PipeW(p) => {
                let pp = &self.pipes[p];
                if !pp.r_open {
                    return true; // EPIPE, immediately
                }
                if n == 0 {
                    return true;
                }
                pp.slot_free() || pp.can_merge(n % PAGE)
            }
            _ => true,
        }
    }

    /// `max_take`: upper bound on the bytes returned (short-read fault).
    pub fn try_read(&mut self, pid: i32, fd: i32, out: &mut [u8], max_take: Option<usize>) -> KRes<usize> {
        let d = match self.desc_of(pid, fd) {
            None => return Err(Blk::Err(libc::EBADF)),
            Some(d) => d,
        };
        match self.descs[d].kind {
            DescKind::PipeR(p) => {
                let pp = &mut self.pipes[p];
                let avail = pp.avail();
                if avail == 0 {
                    if pp.w_open {
                        return Err(Blk::Block);
                    }
                    return Ok(0);
                }
                if out.is_empty() {
                    return Ok(0);
                }
                let mut n = avail.min(out.len());
                if let Some(m) = max_take {
                    n = n.min(m.max(1));
                }
                out[..n].copy_from_slice(&pp.hist[pp.rpos..pp.rpos + n]);
                pp.pop(n);
                self.touch();
                Ok(n)
            }
            DescKind::PipeW(_) => Err(Blk::Err(libc::EBADF)),
            DescKind::File(f) => {
                let off = self.descs[d].offset as usize;
                let data = &self.files[f].data;
                if off >= data.len() {
                    return Ok(0);
                }
                let n = (data.len() - off).min(out.len());
                out[..n].copy_from_slice(&data[off..off + n]);
                self.descs[d].offset += n as u64;
                self.touch();
                Ok(n)
            }
            DescKind::Null | DescKind::Tty(_) => Ok(0),
        }
    }

    /// One write attempt. Returns bytes accepted, Block, or Err(EPIPE) (the
    /// caller decides about SIGPIPE). `max_take`: short-write fault.
    pub fn try_write(&mut self, pid: i32, fd: i32, data: &[u8], max_take: Option<usize>) -> KRes<usize> {
        let d = match self.desc_of(pid, fd) {
            None => return Err(Blk::Err(libc::EBADF)),
            Some(d) => d,
        };
        match self.descs[d].kind {
            DescKind::PipeW(p) => {
                let pp = &mut self.pipes[p];
                if !pp.r_open {
                    return Err(Blk::Err(libc::EPIPE));
                }
                if data.is_empty() {
                    return Ok(0);
                }
                let mut data = data;
                if let Some(m) = max_take {
                    data = &data[..data.len().min(m.max(1))];
                }
                if !(pp.slot_free() || pp.can_merge(data.len() % PAGE)) {
                    return Err(Blk::Block);
                }
                let n = pp.push(data);
                if n == 0 {
                    return Err(Blk::Block);
                }
                if !pp.slot_free() {
                    pp.was_full = true;
                }
                if pid == PARENT_PID {
                    let l = pp.hist.len();
                    pp.wlog.push((self.seq, l));
                }
                self.touch();
                Ok(n)
            }
            DescKind::PipeR(_) => Err(Blk::Err(libc::EBADF)),
            DescKind::File(f) => {
                let off = if self.descs[d].append { self.files[f].data.len() } else { self.descs[d].offset as usize };
                let fdata = &mut self.files[f].data;
                if fdata.len() < off + data.len() {
                    fdata.resize(off + data.len(), 0);
                }
                fdata[off..off + data.len()].copy_from_slice(data);
                self.descs[d].offset = (off + data.len()) as u64;
                self.touch();
                Ok(data.len())
            }
            DescKind::Null => Ok(data.len()),
            DescKind::Tty(_) => {
                // inherited terminal: a sink whose content we keep per stream
                self.touch();
                Ok(data.len())
            }
        }
    }

    pub fn poll_revents(&self, pid: i32, fd: i32, events: i16) -> i16 {
        if fd < 0 {
            return 0;
        }
        let d = match self.desc_of(pid, fd) {
            None => return POLLNVAL,
            Some(d) => d,
        };
        let mut r: i16 = 0;
        match self.descs[d].kind {
            DescKind::PipeR(p) => {
                let pp = &self.pipes[p];
                if pp.avail() > 0 {
                    r |= POLLIN;
                }
                if !pp.w_open {
                    r |= POLLHUP;
                }
            }
            DescKind::PipeW(p) => {
                let pp = &self.pipes[p];
                if pp.slot_free() {
                    r |= POLLOUT;
                }
                if !pp.r_open {
                    r |= POLLERR;
                }
            }
            _ => {
                r |= POLLIN | POLLOUT;
            }
        }
        r & (events | POLLERR | POLLHUP | POLLNVAL)
    }

    // ---- processes -------------------------------------------------------

    pub fn alloc_pid(&mut self) -> i32 {
        // Linux-like: increasing, wrap around, skip live pids
        for _ in 0..=(self.pid_hi - self.pid_lo) {
            let c = self.next_pid;
            self.next_pid += 1;
            if self.next_pid >= self.pid_hi {
                self.next_pid = self.pid_lo;
            }
            if !self.procs.contains_key(&c) {
                return c;
            }
        }
        // table full: extend (never happens with sane plans)
        self.pid_hi += 64;
        self.alloc_pid()
    }

    /// fork: copy of the caller's table, credentials, cwd, dispositions; mask of
    /// the calling thread.
    pub fn fork_proc(&mut self, parent: i32, mask: u64, kind: PKind) -> i32 {
        let pid = self.alloc_pid();
        let src = self.proc(parent).clone();
        let mut p = Proc::blank(pid, parent, kind);
        p.fds = src.fds.clone();
        p.cred = src.cred;
        p.cwd = src.cwd.clone();
        p.pgid = src.pgid;
        p.sigmask = mask;
        p.disp = src.disp.clone();
        let descs: Vec<usize> = p.fds.values().map(|e| e.desc).collect();
        for d in descs {
            self.incref(d);
        }
        self.procs.insert(pid, p);
        self.touch();
        pid
    }

    /// A scripted process attached directly to the given descriptions (no
    /// fork/exec through the library): used by the thread-communicator family.
    pub fn spawn_script(&mut self, prog: Vec<crate::prog::Op>, fds: [Option<usize>; 3]) -> i32 {
        let pid = self.alloc_pid();
        let idx = self.n_spawned;
        self.n_spawned += 1;
        let mut p = Proc::blank(pid, PARENT_PID, PKind::Child(idx));
        let boot: Vec<usize> = (0..3).map(|i| self.proc(PARENT_PID).fds[&i].desc).collect();
        for i in 0..3 {
            let d = fds[i].unwrap_or(boot[i]);
            p.fds.insert(i as i32, FdEnt { desc: d, cloexec: false });
        }
        let descs: Vec<usize> = p.fds.values().map(|e| e.desc).collect();
        p.exec_fds = p.fds.iter().map(|(fd, e)| (*fd, e.desc)).collect();
        p.prog = prog;
        p.state = PState::Running;
        p.exec = Some(ExecRecord { path: b"(direct)".to_vec(), resolved: b"(direct)".to_vec(), argv: vec![], envp_explicit: false, env: vec![] });
        p.exec_sigpipe = Some(Disp::Default);
        for d in descs {
            self.incref(d);
        }
        self.procs.insert(pid, p);
        self.touch();
        pid
    }

    /// exec bookkeeping: close cloexec descriptors, reset handlers.
    pub fn do_exec(&mut self, pid: i32, rec: ExecRecord, prog: Option<usize>) {
        let cl: Vec<i32> = self.proc(pid).fds.iter().filter(|(_, e)| e.cloexec).map(|(fd, _)| *fd).collect();
        for fd in cl {
            let _ = self.k_close(pid, fd);
        }
        let now = self.now;
        let seq = self.seq;
        let programs_len = self.programs.len();
        let prog_ops = prog.filter(|&i| i < programs_len).map(|i| self.programs[i].clone());
        let p = self.proc_mut(pid);
        for d in p.disp.iter_mut() {
            if matches!(*d, Disp::Handler | Disp::ExitWith(_) | Disp::Count) {
                *d = Disp::Default;
            }
        }
        p.exec_fds = p.fds.iter().map(|(fd, e)| (*fd, e.desc)).collect();
        p.exec_mask = p.sigmask;
        p.exec_sigpipe = Some(p.disp[SIGPIPE as usize]);
        p.exec_cred = Some(p.cred);
        p.exec_cwd = p.cwd.clone();
        p.exec_pgid = p.pgid;
        p.exec_at = Some(now);
        p.exec_seq = Some(seq);
        p.exec = Some(rec);
        p.prog = prog_ops.unwrap_or_default();
        p.prog_id = prog;
        p.cur = Default::default();
        p.state = PState::Running;
        self.touch();
    }

    pub fn exit_proc(&mut self, pid: i32, cause: ExitCause) {
        let fds: Vec<i32> = self.proc(pid).fds.keys().cloned().collect();
        for fd in fds {
            let _ = self.k_close(pid, fd);
        }
        let now = self.now;
        let seq = self.seq;
        let p = self.proc_mut(pid);
        let status = match cause {
            ExitCause::Code(c) => wstatus_exit(c),
            ExitCause::Signal(s) => wstatus_sig(s),
        };
        p.state = PState::Zombie { status };
        p.exit_cause = Some(cause);
        p.exit_at = Some(now);
        p.exit_seq = Some(seq);
        p.stopped = false;
        let ppid = p.ppid;
        // orphans of a dead simulated process are re-parented to init and
        // reaped automatically
        if !self.procs.contains_key(&ppid) || ppid == 1 {
            self.reap(pid, Ent::Env);
        } else if !matches!(self.proc(ppid).state, PState::Running | PState::Sleeping { .. } | PState::PreExec) {
            self.reap(pid, Ent::Env);
        }
        // children of pid become orphans
        let kids: Vec<i32> = self.procs.values().filter(|c| c.ppid == pid).map(|c| c.pid).collect();
        for c in kids {
            self.proc_mut(c).ppid = 1;
            if matches!(self.proc(c).state, PState::Zombie { .. }) {
                self.reap(c, Ent::Env);
            }
        }
        self.touch();
    }

    pub fn reap(&mut self, pid: i32, by: Ent) {
        if let Some(mut p) = self.procs.remove(&pid) {
            p.state = PState::Reaped;
            p.reaped_by = Some(by);
            p.reaped_seq = self.seq;
            self.graveyard.push(p);
            self.touch();
        }
    }

    /// All processes ever, live first then dead
    pub fn all_procs(&self) -> impl Iterator<Item = &Proc> {
        self.procs.values().chain(self.graveyard.iter())
    }

    pub fn child_by_spawn(&self, idx: usize) -> Option<&Proc> {
        self.all_procs().find(|p| p.kind == PKind::Child(idx))
    }

    /// waitpid in "try" form. Ok((pid,status)) / Ok((0,0)) for WNOHANG-running / Block / Err(ECHILD)
    pub fn try_waitpid(&mut self, caller: i32, who: Ent, pid: i32, flags: i32) -> KRes<(i32, i32)> {
        let mut cands: Vec<i32> = self
            .procs
            .values()
            .filter(|p| p.ppid == caller && (pid == -1 || pid == 0 || p.pid == pid || (pid < -1 && p.pgid == -pid)))
            .map(|p| p.pid)
            .collect();
        // Linux: __WNOTHREAD restricts the wait to the children the calling thread itself forked
        const WNOTHREAD: i32 = 0x2000_0000;
        if flags & WNOTHREAD != 0 {
            if let Ent::Par(t) = who {
                cands.retain(|c| self.proc(*c).forked_by.map(|f| f == t).unwrap_or(true));
            }
        }
        if cands.is_empty() {
            return Err(Blk::Err(libc::ECHILD));
        }
        for c in &cands {
            if let PState::Zombie { status } = self.proc(*c).state {
                self.reap(*c, who);
                return Ok((*c, status));
            }
        }
        // stopped / continued children are reported only on request, once, and stay children
        if flags & libc::WUNTRACED != 0 {
            for c in &cands {
                let sig = self.proc(*c).stop_unreported;
                if sig != 0 && self.proc(*c).stopped {
                    self.proc_mut(*c).stop_unreported = 0;
                    return Ok((*c, (sig << 8) | 0x7f));
                }
            }
        }
        if flags & libc::WCONTINUED != 0 {
            for c in &cands {
                if self.proc(*c).cont_unreported {
                    self.proc_mut(*c).cont_unreported = false;
                    return Ok((*c, 0xffff));
                }
            }
        }
        if flags & libc::WNOHANG != 0 {
            return Ok((0, 0));
        }
        Err(Blk::Block)
    }

    pub fn classify_pid(&self, pid: i32) -> KillTarget {
        if pid <= 0 {
            return KillTarget::Group;
        }
        match self.procs.get(&pid) {
            None => KillTarget::Nobody,
            Some(p) => match (p.kind, &p.state) {
                (PKind::Child(i), PState::Zombie { .. }) => KillTarget::ZombieChild(i),
                (PKind::Child(i), _) => KillTarget::LiveChild(i),
                (PKind::Bystander, _) => KillTarget::Bystander,
                _ => KillTarget::Other,
            },
        }
    }

    /// Deliver a signal to a simulated process.
    pub fn deliver(&mut self, pid: i32, sig: i32, from: Ent) {
        let (state, disp, blocked) = {
            let p = self.proc(pid);
            (p.state.clone(), p.disp.get(sig as usize).cloned().unwrap_or(Disp::Default), p.sigmask & sig_bit(sig) != 0)
        };
        if matches!(state, PState::Zombie { .. } | PState::Reaped) {
            return;
        }
        self.proc_mut(pid).signals_got.push((sig, from));
        if sig == 0 {
            return;
        }
        if sig == SIGKILL {
            if !self.dies_later(pid, sig, from) {
                self.exit_proc(pid, ExitCause::Signal(SIGKILL));
            }
            return;
        }
        if sig == SIGSTOP {
            self.proc_mut(pid).stopped = true;
            self.proc_mut(pid).stop_unreported = sig;
            self.touch();
            return;
        }
        if sig == SIGCONT {
            if self.proc(pid).stopped {
                self.proc_mut(pid).cont_unreported = true;
            }
            self.proc_mut(pid).stopped = false;
            self.proc_mut(pid).stop_unreported = 0;
            self.touch();
            // falls through to disposition handling (default: nothing more)
        }
        if blocked {
            self.proc_mut(pid).pending |= sig_bit(sig);
            return;
        }
        match disp {
            Disp::Ignore => {}
            Disp::Count => {}
            Disp::ExitWith(c) => self.exit_proc(pid, ExitCause::Code(c)),
            Disp::Handler => {
                // a handler of the parent program running in a forked copy:
                // treat as "survives"
            }
            Disp::Default => match default_action(sig) {
                DefAct::Term | DefAct::Core => {
                    if !self.dies_later(pid, sig, from) {
                        self.exit_proc(pid, ExitCause::Signal(sig))
                    }
                }
                DefAct::Ign | DefAct::Cont => {}
                DefAct::Stop => {
                    self.proc_mut(pid).stopped = true;
                    self.proc_mut(pid).stop_unreported = sig;
                    self.touch();
                }
            },
        }
    }

    /// `kill_lag`: the signal is fatal and comes from the parent - the target stops doing anything
    /// and is gone a little later (it raises the same signal against itself after a nap, which
    /// ends it with the same cause).
    fn dies_later(&mut self, pid: i32, sig: i32, from: Ent) -> bool {
        let lag = self.faults.kill_lag_ns;
        if lag == 0 || !matches!(from, Ent::Par(_)) || !matches!(self.proc(pid).state, PState::Running | PState::Sleeping { .. }) {
            return false;
        }
        self.fcount.hit("kill_lag");
        let until = self.now.saturating_add(lag);
        let p = self.proc_mut(pid);
        p.prog = vec![crate::prog::Op::Raise { sig }, crate::prog::Op::Exit { code: 0 }];
        p.cur = Default::default();
        p.state = PState::Sleeping { until };
        p.stopped = false;
        p.stop_unreported = 0;
        self.touch();
        true
    }

    pub fn k_kill(&mut self, who: Ent, pid: i32, sig: i32) -> Result<(), i32> {
        let target = self.classify_pid(pid);
        let in_lib = match who {
            Ent::Par(t) => self.in_lib[t as usize],
            _ => false,
        };
        let mut injected = None;
        if in_lib && pid > 0 {
            if let Some((n, e)) = self.faults.kill_fail {
                self.n_kill_in_lib += 1;
                if self.n_kill_in_lib == n && self.procs.get(&pid).map(|p| p.alive()).unwrap_or(false) {
                    self.fcount.hit("kill_fail");
                    injected = Some(e);
                }
            }
        }
        let res = if let Some(e) = injected {
            Err(e)
        } else if pid <= 0 {
            // group / broadcast: logged, nothing delivered (it is a violation by itself)
            Ok(())
        } else if !(0..=64).contains(&sig) {
            Err(libc::EINVAL)
        } else if !self.procs.contains_key(&pid) {
            Err(libc::ESRCH)
        } else {
            self.deliver(pid, sig, who);
            Ok(())
        };
        self.kill_log.push(KillRec {
            seq: self.seq + 1,
            t: self.now,
            who,
            pid,
            sig,
            ret: match res {
                Ok(()) => 0,
                Err(e) => -e,
            },
            target,
            in_lib,
        });
        res
    }

    // ---- credentials -----------------------------------------------------

    pub fn k_setuid(&mut self, pid: i32, uid: u32) -> Result<(), i32> {
        let c = &mut self.proc_mut(pid).cred;
        if c.euid == 0 {
            c.ruid = uid;
            c.euid = uid;
            c.suid = uid;
            Ok(())
        } else if uid == c.ruid || uid == c.suid {
            c.euid = uid;
            Ok(())
        } else {
            Err(libc::EPERM)
        }
    }

    pub fn k_setgid(&mut self, pid: i32, gid: u32) -> Result<(), i32> {
        let c = &mut self.proc_mut(pid).cred;
        if c.euid == 0 {
            c.rgid = gid;
            c.egid = gid;
            c.sgid = gid;
            Ok(())
        } else if gid == c.rgid || gid == c.sgid {
            c.egid = gid;
            Ok(())
        } else {
            Err(libc::EPERM)
        }
    }

    pub fn k_setpgid(&mut self, caller: i32, pid: i32, pgid: i32) -> Result<(), i32> {
        let target = if pid == 0 { caller } else { pid };
        if pgid < 0 {
            return Err(libc::EINVAL);
        }
        if !self.procs.contains_key(&target) {
            return Err(libc::ESRCH);
        }
        let new = if pgid == 0 { target } else { pgid };
        self.proc_mut(target).pgid = new;
        Ok(())
    }

    // ---- file system -----------------------------------------------------

    pub fn normalize(&self, cwd: &[u8], path: &[u8]) -> Result<Vec<u8>, i32> {
        if path.is_empty() {
            return Err(libc::ENOENT);
        }
        if path.len() > 4095 {
            return Err(libc::ENAMETOOLONG);
        }
        let mut full: Vec<u8> = if path[0] == b'/' { vec![] } else { cwd.to_vec() };
        for comp in path.split(|&b| b == b'/') {
            if comp.is_empty() || comp == b"." {
                continue;
            }
            if comp.len() > 255 {
                return Err(libc::ENAMETOOLONG);
            }
            if comp == b".." {
                while let Some(b) = full.pop() {
                    if b == b'/' {
                        break;
                    }
                }
                continue;
            }
            // the prefix so far must be a searchable directory
            let prefix: &[u8] = if full.is_empty() { b"/" } else { &full };
            match self.fs.get(prefix) {
                Some(Node::Dir { .. }) => {}
                Some(Node::Loop) => return Err(libc::ELOOP),
                Some(_) => return Err(libc::ENOTDIR),
                None => return Err(libc::ENOENT),
            }
            full.push(b'/');
            full.extend_from_slice(comp);
        }
        if full.is_empty() {
            full.push(b'/');
        }
        Ok(full)
    }

    fn check_search(&self, full: &[u8], euid: u32) -> Result<(), i32> {
        // every proper directory prefix must be searchable (root bypasses)
        if euid == 0 {
            return Ok(());
        }
        let mut i = 1;
        while i < full.len() {
            if full[i] == b'/' {
                if let Some(Node::Dir { searchable: false }) = self.fs.get(&full[..i]) {
                    return Err(libc::EACCES);
                }
            }
            i += 1;
        }
        Ok(())
    }

    pub fn k_chdir(&mut self, pid: i32, path: &[u8]) -> Result<(), i32> {
        if path.contains(&0) {
            return Err(libc::EINVAL);
        }
        let cwd = self.proc(pid).cwd.clone();
        let euid = self.proc(pid).cred.euid;
        let full = self.normalize(&cwd, path)?;
        self.check_search(&full, euid)?;
        match self.fs.get(&full) {
            None => Err(libc::ENOENT),
            Some(Node::Dir { searchable }) => {
                if !*searchable && euid != 0 {
                    return Err(libc::EACCES);
                }
                self.proc_mut(pid).cwd = full;
                Ok(())
            }
            Some(Node::Loop) => Err(libc::ELOOP),
            Some(_) => Err(libc::ENOTDIR),
        }
    }

    /// stat()/access() of a path: Ok(st_mode) or errno.
    pub fn k_stat(&self, pid: i32, path: &[u8]) -> Result<u32, i32> {
        if path.contains(&0) {
            return Err(libc::EINVAL);
        }
        let cwd = &self.proc(pid).cwd;
        let euid = self.proc(pid).cred.euid;
        let trailing_slash = path.last() == Some(&b'/');
        let full = self.normalize(cwd, path)?;
        self.check_search(&full, euid)?;
        match self.fs.get(&full) {
            None => Err(libc::ENOENT),
            Some(Node::Dir { searchable }) => Ok(libc::S_IFDIR | if *searchable { 0o755 } else { 0o700 }),
            Some(_) if trailing_slash => Err(libc::ENOTDIR),
            Some(Node::Exe { .. }) | Some(Node::NotBinary) => Ok(libc::S_IFREG | 0o755),
            Some(Node::NoExec) => Ok(libc::S_IFREG | 0o644),
            Some(Node::Loop) => Err(libc::ELOOP),
        }
    }

    /// Resolve an exec path: Ok((full path, program id)) or errno.
    pub fn resolve_exec(&self, pid: i32, path: &[u8]) -> Result<(Vec<u8>, usize), i32> {
        let cwd = &self.proc(pid).cwd;
        let euid = self.proc(pid).cred.euid;
        let trailing_slash = path.last() == Some(&b'/');
        let full = self.normalize(cwd, path)?;
        self.check_search(&full, euid)?;
        match self.fs.get(&full) {
            None => Err(libc::ENOENT),
            Some(Node::Dir { .. }) => Err(libc::EACCES),
            Some(_) if trailing_slash => Err(libc::ENOTDIR),
            Some(Node::Exe { prog }) => Ok((full, *prog)),
            Some(Node::NoExec) => Err(libc::EACCES),
            Some(Node::NotBinary) => Err(libc::ENOEXEC),
            Some(Node::Loop) => Err(libc::ELOOP),
        }
    }

    pub fn add_dir(&mut self, path: &[u8], searchable: bool) {
        // create parents
        let mut i = 1;
        while i < path.len() {
            if path[i] == b'/' {
                self.fs.entry(path[..i].to_vec()).or_insert(Node::Dir { searchable: true });
            }
            i += 1;
        }
        self.fs.insert(path.to_vec(), Node::Dir { searchable });
    }

    pub fn add_node(&mut self, path: &[u8], node: Node) {
        if let Some(pos) = path.iter().rposition(|&b| b == b'/') {
            if pos > 0 {
                let dir = path[..pos].to_vec();
                if !self.fs.contains_key(&dir) {
                    self.add_dir(&dir, true);
                }
            }
        }
        self.fs.insert(path.to_vec(), node);
    }

    // ---- sigmask -----------------------------------------------------------

    pub fn apply_mask(old: u64, how: i32, set: u64) -> u64 {
        let unmaskable = sig_bit(SIGKILL) | sig_bit(SIGSTOP);
        let new = match how {
            libc::SIG_BLOCK => old | set,
            libc::SIG_UNBLOCK => old & !set,
            _ => set,
        };
        new & !unmaskable
    }
}

impl Proc {
    pub fn blank(pid: i32, ppid: i32, kind: PKind) -> Proc {
        Proc {
            pid,
            ppid,
            kind,
            fds: BTreeMap::new(),
            cred: Cred::root(),
            cwd: b"/".to_vec(),
            pgid: pid,
            sigmask: 0,
            pending: 0,
            disp: vec![Disp::Default; 65],
            state: PState::PreExec,
            stopped: false,
            stop_unreported: 0,
            cont_unreported: false,
            report: None,
            exec: None,
            exec_fds: BTreeMap::new(),
            exec_mask: 0,
            exec_sigpipe: None,
            exec_cred: None,
            exec_cwd: vec![],
            exec_pgid: 0,
            exec_at: None,
            exec_seq: None,
            prog: vec![],
            prog_id: None,
            cur: Default::default(),
            rx: BTreeMap::new(),
            tx_bytes: BTreeMap::new(),
            tx_data: BTreeMap::new(),
            epipes: 0,
            exit_cause: None,
            exit_at: None,
            exit_seq: None,
            reaped_by: None,
            reaped_seq: 0,
            signals_got: vec![],
            escaped: None,
            launch_failed: false,
            steps: 0,
            cc_idx: 0,
            exec_idx: 0,
            forked_by: None,
            preexec_pos: 0,
            preexec_wake: None,
        }
    }
    pub fn alive(&self) -> bool {
        matches!(self.state, PState::PreExec | PState::Running | PState::Sleeping { .. })
    }
}

pub fn sigbit(sig: i32) -> u64 {
    sig_bit(sig)
}

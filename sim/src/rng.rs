//! Own PRNG (SplitMix64 + xoshiro256**): no crate RNG, no hidden entropy.

#[derive(Clone, Debug)]
pub struct Rng {
    s: [u64; 4],
}

pub fn splitmix(x: &mut u64) -> u64 {
    *x = x.wrapping_add(0x9E3779B97F4A7C15);
    let mut z = *x;
    z = (z ^ (z >> 30)).wrapping_mul(0xBF58476D1CE4E5B9);
    z = (z ^ (z >> 27)).wrapping_mul(0x94D049BB133111EB);
    z ^ (z >> 31)
}

/// Mix several integers into one seed (order-sensitive).
pub fn mix(parts: &[u64]) -> u64 {
    let mut h = 0x243F6A8885A308D3u64;
    for &p in parts {
        let mut x = h ^ p.wrapping_mul(0x9E3779B97F4A7C15);
        h = splitmix(&mut x);
    }
    h
}

pub fn hash_str(s: &str) -> u64 {
    let mut h = 0xcbf29ce484222325u64;
    for b in s.bytes() {
        h ^= b as u64;
        h = h.wrapping_mul(0x100000001b3);
    }
    h
}

impl Rng {
    pub fn new(seed: u64) -> Rng {
        let mut x = seed;
        let s = [
            splitmix(&mut x),
            splitmix(&mut x),
            splitmix(&mut x),
            splitmix(&mut x),
        ];
        Rng { s }
    }
    pub fn next(&mut self) -> u64 {
        let r = self.s[1].wrapping_mul(5).rotate_left(7).wrapping_mul(9);
        let t = self.s[1] << 17;
        self.s[2] ^= self.s[0];
        self.s[3] ^= self.s[1];
        self.s[1] ^= self.s[2];
        self.s[0] ^= self.s[3];
        self.s[2] ^= t;
        self.s[3] = self.s[3].rotate_left(45);
        r
    }
    /// uniform in 0..n (n>0)
    pub fn below(&mut self, n: u64) -> u64 {
        if n <= 1 {
            return 0;
        }
        self.next() % n
    }
    pub fn range(&mut self, lo: u64, hi_incl: u64) -> u64 {
        lo + self.below(hi_incl - lo + 1)
    }
    pub fn chance(&mut self, num: u64, den: u64) -> bool {
        self.below(den) < num
    }
    pub fn pick<'a, T>(&mut self, xs: &'a [T]) -> &'a T {
        &xs[self.below(xs.len() as u64) as usize]
    }
}

/// Deterministic content of byte `off` of data stream `stream`.
/// Streams numbered 200 and up carry text: valid UTF-8 with characters of every encoded length, so
/// that a cut (end of output, a size limit) falls inside a character about half of the time.
const TEXT_PATTERN: &[u8] = "a\u{20ac}\u{e9}\u{1f600}z\n".as_bytes();

#[inline]
pub fn stream_byte(stream: u32, off: u64) -> u8 {
    if stream >= 200 {
        // every stream starts on a character boundary of the pattern (a different one per stream)
        let start = [0u64, 1, 4, 6, 10, 11][(stream % 6) as usize];
        return TEXT_PATTERN[((off + start) % TEXT_PATTERN.len() as u64) as usize];
    }
    // cheap, position-dependent, covers all 256 values incl. NUL and
    // invalid UTF-8; consecutive bytes differ so shifts are visible.
    let x = (off.wrapping_mul(0x9E3779B97F4A7C15) ^ ((stream as u64) << 32 | stream as u64))
        .wrapping_mul(0xD6E8FEB86659FD93);
    (x >> 37) as u8
}

pub fn stream_bytes(stream: u32, from: u64, len: usize) -> Vec<u8> {
    (0..len as u64).map(|i| stream_byte(stream, from + i)).collect()
}

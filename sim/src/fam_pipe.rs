//! Family `pipeline`: composition (C13) and failing part-way (C14).

use crate::api::*;
use crate::kernel::*;
use crate::plan::*;
use crate::prog::{filter_byte, Op};
use crate::rng::{stream_byte, Rng};
use crate::runner::FamOut;
use crate::sim::sim;
use serde::{Deserialize, Serialize};
use std::collections::BTreeMap;
use std::io::{Read, Write};
use subprocess::{Exec, ExitStatus, Pipeline, Popen, PopenError, Redirection};

#[derive(Serialize, Deserialize, Clone, Copy, Debug, PartialEq, Eq)]
pub enum PStdin {
    Inherit,
    /// fed by the caller through the write adapter / Popen.stdin
    Pipe,
    /// input data handed to capture/communicate
    Data,
    File,
    Null,
}

#[derive(Serialize, Deserialize, Clone, Copy, Debug, PartialEq, Eq)]
pub enum PStdout {
    Inherit,
    Pipe,
    File,
    Null,
}

#[derive(Serialize, Deserialize, Clone, Copy, Debug, PartialEq, Eq)]
pub enum Term {
    Popen,
    Join,
    Capture,
    Communicate,
    StreamStdout,
    StreamStdin,
}

#[derive(Serialize, Deserialize, Clone, Copy, Debug, PartialEq, Eq)]
pub enum Shape {
    /// a | b | c ...
    Chain,
    /// Pipeline::from_exec_iter
    Iter,
    /// (a | b) | (c | d ...)   (pipeline | pipeline)
    Pair,
    /// Pipeline::new(a, b) | c ...
    New,
}

#[derive(Serialize, Deserialize, Clone, Debug)]
pub struct StageSpec {
    pub prog: String,
    pub detached: bool,
    pub tag: u8,
    pub code: i32,
}

#[derive(Serialize, Deserialize, Clone, Debug)]
pub struct PipePlan {
    pub stages: Vec<StageSpec>,
    pub shape: Shape,
    pub stdin: PStdin,
    pub stdout: PStdout,
    pub stderr_file: bool,
    pub term: Term,
    pub input_len: usize,
    /// C14: stage that cannot be started (its program is missing) -- injected faults live in knobs.faults
    pub missing_stage: Option<usize>,
    /// the first stage generates its own data (no pipeline input)
    pub source_len: usize,
    /// pipeline|pipeline: configure stdin/stderr_to on the left operand and stdout on the right one before composing
    #[serde(default)]
    pub early: bool,
    /// run a clone() of the configured pipeline (the original is dropped unused)
    #[serde(default)]
    pub via_clone: bool,
    /// this stage, once done with its work, closes its three standard streams and stays around for
    /// an hour (a daemonizing command): end-of-file must not wait for it (C08's consequence)
    #[serde(default)]
    pub linger: Option<usize>,
    /// the last command only takes the first N bytes and exits (`head -c N`): the producers
    /// upstream must get SIGPIPE/EPIPE and the pipeline must still complete
    #[serde(default)]
    pub head_last: Option<usize>,
}

impl Default for PipePlan {
    fn default() -> Self {
        PipePlan { stages: vec![], shape: Shape::Chain, stdin: PStdin::Inherit, stdout: PStdout::Inherit, stderr_file: false, term: Term::Join, input_len: 0, missing_stage: None, source_len: 0, early: false, via_clone: false, linger: None, head_last: None }
    }
}

const SRC_STREAM: u32 = 40;
const LINGER_NS: u64 = 3_600_000_000_000;

pub fn generate(prop: &str, rng: &mut Rng, plan: &mut Plan, _index: u64) {
    let cap = plan.knobs.pipe_caps[0];
    let mut pp = PipePlan::default();
    let n = 2 + rng.below(if prop == "C14" { 4 } else { 5 }) as usize;
    pp.term = *rng.pick(&[Term::Popen, Term::Join, Term::Capture, Term::Capture, Term::Communicate, Term::StreamStdout, Term::StreamStdin]);
    // only pairings that make sense for the terminator
    pp.stdin = match pp.term {
        Term::Join | Term::StreamStdout => *rng.pick(&[PStdin::Inherit, PStdin::File, PStdin::Null]),
        Term::Capture | Term::Communicate => *rng.pick(&[PStdin::Inherit, PStdin::Data, PStdin::Data, PStdin::File, PStdin::Null]),
        Term::StreamStdin => PStdin::Pipe,
        Term::Popen => *rng.pick(&[PStdin::Inherit, PStdin::Pipe, PStdin::File, PStdin::Null]),
    };
    pp.stdout = match pp.term {
        Term::Join | Term::StreamStdin => *rng.pick(&[PStdout::Inherit, PStdout::File, PStdout::Null]),
        Term::Capture | Term::Communicate | Term::StreamStdout => PStdout::Pipe,
        Term::Popen => *rng.pick(&[PStdout::Inherit, PStdout::Pipe, PStdout::File]),
    };
    pp.stderr_file = !matches!(pp.term, Term::Capture | Term::Communicate) && rng.chance(1, 2);
    pp.shape = *rng.pick(&[Shape::Chain, Shape::Iter, Shape::Pair, Shape::Pair, Shape::New]);
    pp.early = rng.chance(1, 2);
    pp.via_clone = rng.chance(1, 5);
    let has_input = matches!(pp.stdin, PStdin::Pipe | PStdin::Data | PStdin::File);
    let small = rng.chance(3, 4);
    pp.input_len = if has_input { gen_len(rng, cap, !small).min(if small { 200_000 } else { 2 << 20 }) } else { 0 };
    pp.source_len = if has_input { 0 } else { gen_len(rng, cap, !small).min(if small { 200_000 } else { 2 << 20 }) };
    if pp.term == Term::Communicate && prop != "C14" && rng.chance(1, 3) {
        pp.linger = Some(rng.below(n as u64) as usize);
    }
    if prop != "C14" && pp.linger.is_none() && rng.chance(1, 6) {
        let total = pp.input_len + pp.source_len;
        if total > 0 {
            pp.head_last = Some(match rng.below(4) {
                0 => 1,
                1 => rng.range(1, 4096) as usize,
                2 => (total / 2).max(1),
                _ => rng.range(1, total as u64) as usize,
            });
        }
    }
    let chunk0 = gen_chunk(rng, cap).max(if pp.input_len + pp.source_len > 100_000 { 512 } else { 16 });
    for i in 0..n {
        let tag = (i as u8).wrapping_mul(37).wrapping_add(11);
        let code = (rng.below(200) + 1) as i32 * if rng.chance(1, 3) { 0 } else { 1 };
        let chunk = if rng.chance(1, 2) { chunk0 } else { gen_chunk(rng, cap).max(if pp.input_len + pp.source_len > 100_000 { 512 } else { 16 }) };
        let mut ops = vec![];
        if i == 0 && !has_input {
            // source: transforms its own data like a filter would
            ops.push(Op::Write { fd: 2, stream: 60, len: 0, chunk: 1 });
            ops.push(Op::Write { fd: 1, stream: SRC_STREAM, len: pp.source_len, chunk });
            ops.push(Op::ReadAll { fd: 0, chunk: 4096 });
        } else if let (true, Some(max)) = (i == n - 1, pp.head_last) {
            ops.push(Op::Head { inp: 0, out: 1, chunk, tag, max });
        } else {
            ops.push(Op::Filter { inp: 0, out: 1, err: 2, chunk, tag, line_every: 1 + rng.below(5) as usize, id: i as u8 });
        }
        if rng.chance(1, 4) {
            ops.push(Op::Sleep { ns: rng.range(0, 500_000_000) });
        }
        if pp.linger == Some(i) {
            for fd in 0..3 {
                ops.push(Op::Close { fd });
            }
            ops.push(Op::Sleep { ns: LINGER_NS });
        }
        ops.push(Op::Exit { code });
        let name = format!("st{}", i);
        plan.add_program(&name, ops);
        pp.stages.push(StageSpec { prog: name, detached: rng.chance(1, 6), tag, code });
    }
    if prop == "C14" {
        let k = rng.below(n as u64) as usize;
        match rng.below(5) {
            0 | 1 => pp.missing_stage = Some(k),
            2 => plan.knobs.faults.exec_errno = vec![(k as u32, 0, *rng.pick(&[libc::EACCES, libc::ENOEXEC, libc::ETXTBSY, libc::ENOMEM]))],
            3 => plan.knobs.faults.fork = Some((k as u32 + 1, *rng.pick(&[libc::EAGAIN, libc::ENOMEM]))),
            _ => plan.knobs.faults.fdalloc = Some((1 + rng.below(4 * n as u64) as u32, libc::EMFILE)),
        }
        plan.knobs.batch = "faulty".into();
        // cleaning up after the failure must not depend on signals getting through: the parent
        // (and so every command) may run with SIGTERM ignored, and kill() may be refused
        if rng.chance(1, 4) {
            plan.parent.sigterm_ignored = true;
        }
        if rng.chance(1, 8) {
            plan.knobs.faults.kill_fail = Some((1 + rng.below(2) as u32, libc::EPERM));
        }
    }
    if rng.chance(1, 6) {
        // a signal handler of the application runs while the parent is blocked
        plan.knobs.faults.eintr = Some((1 + rng.below(12) as u32, 1 + rng.below(3) as u32, *rng.pick(&[1u8, 4, 7, 7])));
        plan.knobs.batch = "faulty".into();
    }
    if prop != "C14" && rng.chance(1, 8) {
        // somebody else in the process reaps children: a command's status may then be unknown,
        // but nothing may hang, be lost or be left behind
        plan.knobs.faults.foreign_reap = true;
        plan.knobs.env_reaps = 1 + rng.below(2) as u32;
        plan.knobs.batch = "faulty".into();
    }
    if rng.chance(1, 8) {
        // a parent with closed standard descriptors (only those no stage inherits)
        let mut mask = 0u8;
        if pp.stdin != PStdin::Inherit && rng.chance(2, 3) {
            mask |= 1;
        }
        if pp.stdout != PStdout::Inherit && rng.chance(2, 3) {
            mask |= 2;
        }
        if (pp.stderr_file || matches!(pp.term, Term::Capture | Term::Communicate)) && rng.chance(2, 3) {
            mask |= 4;
        }
        plan.parent.closed_std = mask;
        plan.parent.files_low = rng.chance(1, 2);
    }
    plan.body = Body::Pipe(pp);
}

type Cfg = Box<dyn FnOnce(Pipeline) -> Pipeline>;

fn build(pp: &PipePlan, cfg_in: Cfg, cfg_out: Cfg, cfg_err: Cfg) -> Pipeline {
    let mk = |i: usize| {
        let name = if pp.missing_stage == Some(i) { "/bin/no-such-program".to_string() } else { format!("/bin/{}", pp.stages[i].prog) };
        let mut e = Exec::cmd(name).arg(format!("stage{}", i));
        if pp.stages[i].detached {
            e = e.detached();
        }
        e
    };
    let n = pp.stages.len();
    if pp.shape == Shape::Pair && n >= 4 && pp.early {
        // settings made on the operands must survive the composition: the left one's input and
        // error sink, the right one's output
        let half = n / 2;
        let mut a = mk(0) | mk(1);
        for i in 2..half {
            a = a | mk(i);
        }
        let mut b = mk(half) | mk(half + 1);
        for i in half + 2..n {
            b = b | mk(i);
        }
        return cfg_err(cfg_in(a)) | cfg_out(b);
    }
    if matches!(pp.shape, Shape::Chain | Shape::New) && n >= 3 && pp.early {
        // settings made on a pipeline survive its being extended by further commands
        let p0 = if pp.shape == Shape::New { Pipeline::new(mk(0), mk(1)) } else { mk(0) | mk(1) };
        let mut p = cfg_err(cfg_out(cfg_in(p0)));
        for i in 2..n {
            p = p | mk(i);
        }
        return p;
    }
    let late = move |p: Pipeline| cfg_err(cfg_out(cfg_in(p)));
    late(match pp.shape {
        // `early` doubles as "lazy": an iterator that cannot tell its length in advance (what
        // filter(), flat_map() or split() give) is as good a source of commands as a Vec
        Shape::Iter if pp.early => Pipeline::from_exec_iter((0..n).filter(|_| true).map(mk)),
        Shape::Iter => Pipeline::from_exec_iter((0..n).map(mk).collect::<Vec<_>>()),
        Shape::New => {
            let mut p = Pipeline::new(mk(0), mk(1));
            for i in 2..n {
                p = p | mk(i);
            }
            p
        }
        Shape::Pair if n >= 4 => {
            let half = n / 2;
            let mut a = mk(0) | mk(1);
            for i in 2..half {
                a = a | mk(i);
            }
            let mut b = mk(half) | mk(half + 1);
            for i in half + 2..n {
                b = b | mk(i);
            }
            a | b
        }
        _ => {
            let mut p = mk(0) | mk(1);
            for i in 2..n {
                p = p | mk(i);
            }
            p
        }
    })
}

fn expected_output(pp: &PipePlan, input: &[u8]) -> Vec<u8> {
    let has_input = matches!(pp.stdin, PStdin::Pipe | PStdin::Data | PStdin::File);
    let mut data: Vec<u8> = if has_input { input.to_vec() } else { (0..pp.source_len as u64).map(|i| stream_byte(SRC_STREAM, i)).collect() };
    let from = if has_input { 0 } else { 1 };
    for st in &pp.stages[from..] {
        for b in data.iter_mut() {
            *b = filter_byte(*b, st.tag);
        }
    }
    if let Some(max) = pp.head_last {
        data.truncate(max);
    }
    data
}

fn lines_multiset(data: &[u8]) -> BTreeMap<Vec<u8>, usize> {
    let mut m = BTreeMap::new();
    for l in data.split(|&b| b == b'\n') {
        if !l.is_empty() {
            *m.entry(l.to_vec()).or_insert(0) += 1;
        }
    }
    m
}

fn status_matches(st: ExitStatus, code: i32) -> bool {
    st == ExitStatus::Exited(code as u32 & 0xff)
}

pub fn run(plan: &Plan, pp: &PipePlan) -> FamOut {
    let n = pp.stages.len();
    let c14 = plan.prop == "C14";
    let input = crate::fam_comm::input_bytes(pp.input_len, false);
    let table_before: BTreeMap<i32, usize> = sim().k.proc(PARENT_PID).fds.iter().map(|(fd, e)| (*fd, e.desc)).collect();
    let boot: Vec<Option<usize>> = (0..3).map(|i| desc_of_parent_fd(i)).collect();
    let mut cfg_in: Cfg = Box::new(|p| p);
    let mut cfg_out: Cfg = Box::new(|p| p);
    let mut cfg_err: Cfg = Box::new(|p| p);
    let mut want_in: Option<usize> = None;
    let mut want_out: Option<usize> = None;
    let mut out_file_idx: Option<usize> = None;
    let mut err_file_idx: Option<usize> = None;
    match pp.stdin {
        PStdin::File => {
            let f = mk_file("pin", input.clone());
            want_in = desc_of_parent_fd(std::os::unix::io::AsRawFd::as_raw_fd(&f));
            cfg_in = Box::new(move |p| p.stdin(f));
        }
        PStdin::Null => cfg_in = Box::new(|p| p.stdin(subprocess::NullFile)),
        PStdin::Data => {
            let data = input.clone();
            cfg_in = Box::new(move |p| p.stdin(data));
        }
        PStdin::Pipe => {
            if pp.term == Term::Popen {
                cfg_in = Box::new(|p| p.stdin(Redirection::Pipe));
            }
        }
        PStdin::Inherit => want_in = boot[0],
    }
    match pp.stdout {
        PStdout::File => {
            let f = mk_file("pout", vec![]);
            let d = desc_of_parent_fd(std::os::unix::io::AsRawFd::as_raw_fd(&f)).unwrap();
            want_out = Some(d);
            if let DescKind::File(i) = sim().k.descs[d].kind {
                out_file_idx = Some(i);
            }
            cfg_out = Box::new(move |p| p.stdout(f));
        }
        PStdout::Null => cfg_out = Box::new(|p| p.stdout(subprocess::NullFile)),
        PStdout::Pipe => {
            if pp.term == Term::Popen {
                cfg_out = Box::new(|p| p.stdout(Redirection::Pipe));
            }
        }
        PStdout::Inherit => want_out = boot[1],
    }
    if pp.stderr_file {
        let f = mk_file("perr", vec![]);
        let d = desc_of_parent_fd(std::os::unix::io::AsRawFd::as_raw_fd(&f)).unwrap();
        if let DescKind::File(i) = sim().k.descs[d].kind {
            err_file_idx = Some(i);
        }
        cfg_err = Box::new(move |p| p.stderr_to(f));
    }
    // composing two or more commands, whichever way, is always valid: nothing to refuse here
    let p = match std::panic::catch_unwind(std::panic::AssertUnwindSafe(|| build(pp, cfg_in, cfg_out, cfg_err))) {
        Ok(p) => p,
        Err(_) => {
            let msg = crate::api::LAST_PANIC.with(|p| p.borrow_mut().take()).unwrap_or_default();
            violate("panic", format!("panic/in=compose/shape={:?}", pp.shape), format!("composing a pipeline of {} commands ({:?}{}) panicked: {}", n, pp.shape, if pp.early { ", lazy/early" } else { "" }, msg));
            return FamOut { nontrivial: false };
        }
    };
    // cloning yields an equivalent pipeline (File redirections are dup'ed: same open file description)
    let p = if pp.via_clone {
        let orig = p;
        // not a library call in the fault plan's sense: clone() is documented to panic when
        // duplicating a descriptor fails, so descriptor exhaustion is not injected here
        let r = std::panic::catch_unwind(std::panic::AssertUnwindSafe(|| orig.clone())).map_err(|_| "Pipeline::clone panicked".to_string());
        drop(orig);
        match r {
            Ok(c) => c,
            Err(pm) => {
                violate("panic", "panic/in=Pipeline::clone".into(), pm);
                return FamOut { nontrivial: false };
            }
        }
    } else {
        p
    };
    // ---- run the terminator
    let mut got_out: Option<Vec<u8>> = None;
    let mut got_err: Option<Vec<u8>> = None;
    let mut status: Option<ExitStatus> = None;
    let mut failed: Option<PopenError> = None;
    let forks0 = sim().k.n_fork;
    let mut popens: Option<Vec<Popen>> = None;
    match pp.term {
        Term::Join => match lib("Pipeline::join", || p.join()) {
            Err(pm) => violate("panic", "panic/in=Pipeline::join".into(), pm),
            Ok(Ok(s)) => status = Some(s),
            Ok(Err(e)) => failed = Some(e),
        },
        Term::Capture => match lib("Pipeline::capture", || p.capture()) {
            Err(pm) => violate("panic", "panic/in=Pipeline::capture".into(), pm),
            Ok(Ok(cd)) => {
                status = Some(cd.exit_status);
                got_out = Some(cd.stdout);
                got_err = Some(cd.stderr);
            }
            Ok(Err(e)) => failed = Some(e),
        },
        Term::Communicate => match lib("Pipeline::communicate", || p.communicate()) {
            Err(pm) => violate("panic", "panic/in=Pipeline::communicate".into(), pm),
            Ok(Ok(mut comm)) => {
                let t0 = sim().k.now;
                match lib("Communicator::read", || comm.read()) {
                    Ok(Ok((o, e))) => {
                        got_out = o;
                        got_err = e;
                        if let Some(i) = pp.linger {
                            sim().k.probe("lingering_stage_run");
                            if sim().k.now - t0 >= LINGER_NS / 2 {
                                let holders: Vec<(i32, Vec<i32>)> = sim().k.procs.values().filter(|c| c.pid != PARENT_PID).map(|c| (c.pid, c.exec_fds.keys().cloned().filter(|fd| *fd > 2).collect::<Vec<i32>>())).filter(|(_, v)| !v.is_empty()).collect();
                                violate("eof_waits_for_lingering", "eof_waits_for_lingering/term=communicate".into(), format!("stage {} closed its standard streams after its work and stayed around for an hour; read() returned only after {} s (descriptors above 2 held by the commands at exec time: {:?})", i, (sim().k.now - t0) / 1_000_000_000, holders));
                            }
                        }
                    }
                    Ok(Err(ce)) => failed = Some(PopenError::IoError(ce.error)),
                    Err(pm) => violate("panic", "panic/in=Communicator::read".into(), pm),
                }
                let _ = lib_drop("drop(Communicator)", comm);
            }
            Ok(Err(e)) => failed = Some(e),
        },
        Term::StreamStdout => match lib("Pipeline::stream_stdout", || p.stream_stdout()) {
            Err(pm) => violate("panic", "panic/in=Pipeline::stream_stdout".into(), pm),
            Ok(Ok(mut rd)) => {
                let mut acc = vec![];
                let mut buf = vec![0u8; 65536];
                loop {
                    match lib("adapter.read", || rd.read(&mut buf)) {
                        // the Read contract: an interrupted read is simply repeated by the caller
                        Ok(Err(e)) if e.kind() == std::io::ErrorKind::Interrupted => continue,
                        Ok(Ok(0)) | Ok(Err(_)) | Err(_) => break,
                        Ok(Ok(k)) => acc.extend_from_slice(&buf[..k]),
                    }
                    if sim().poisoned.is_some() {
                        break;
                    }
                }
                got_out = Some(acc);
                let _ = lib_drop("drop(ReadPipelineAdapter)", rd);
            }
            Ok(Err(e)) => failed = Some(e),
        },
        Term::StreamStdin => match lib("Pipeline::stream_stdin", || p.stream_stdin()) {
            Err(pm) => violate("panic", "panic/in=Pipeline::stream_stdin".into(), pm),
            Ok(Ok(mut wr)) => {
                let mut off = 0;
                while off < input.len() {
                    let end = (off + 4096).min(input.len());
                    match lib("adapter.write", || wr.write(&input[off..end])) {
                        Ok(Ok(k)) if k > 0 => off += k,
                        // the Write contract: an interrupted write is simply repeated by the caller
                        Ok(Err(e)) if e.kind() == std::io::ErrorKind::Interrupted => continue,
                        _ => break,
                    }
                    if sim().poisoned.is_some() {
                        break;
                    }
                }
                let _ = lib_drop("drop(WritePipelineAdapter)", wr);
            }
            Ok(Err(e)) => failed = Some(e),
        },
        Term::Popen => match lib("Pipeline::popen", || p.popen()) {
            Err(pm) => violate("panic", "panic/in=Pipeline::popen".into(), pm),
            Ok(Ok(mut v)) => {
                // the caller feeds and drains what it asked to be piped
                if let Some(mut si) = v[0].stdin.take() {
                    let mut off = 0;
                    // feed while draining is not needed: output goes to a file/inherit unless piped
                    if pp.stdout != PStdout::Pipe {
                        while off < input.len() {
                            match si.write(&input[off..(off + 4096).min(input.len())]) {
                                Ok(k) if k > 0 => off += k,
                                _ => break,
                            }
                        }
                    }
                    drop(si);
                }
                if let Some(mut so) = v.last_mut().unwrap().stdout.take() {
                    let mut acc = vec![];
                    let mut buf = vec![0u8; 65536];
                    while let Ok(k) = so.read(&mut buf) {
                        if k == 0 {
                            break;
                        }
                        acc.extend_from_slice(&buf[..k]);
                    }
                    got_out = Some(acc);
                }
                popens = Some(v);
            }
            Ok(Err(e)) => failed = Some(e),
        },
    }
    let forks = sim().k.n_fork - forks0;
    if let Some(v) = popens.take() {
        // wait for the last, then drop everything
        let mut v = v;
        if let Ok(Ok(s)) = lib("Popen::wait(last)", || v.last_mut().unwrap().wait()) {
            status = Some(s);
        }
        let _ = lib_drop("drop(Vec<Popen>)", v);
    }
    let mut nontrivial = false;
    if sim().poisoned.is_some() {
        kill_all_children();
        return FamOut { nontrivial: true };
    }
    if c14 || failed.is_some() {
        // ---- C14: failing part-way
        let k_fail = first_unstarted_stage(n);
        match &failed {
            None => {
                // the fault did not hit the start-up (e.g. the ordinal was not reached)
                sim().k.probe("c14_fault_not_reached");
            }
            Some(e) => {
                nontrivial = true;
                sim().k.probe("pipeline_start_failed");
                if let Some(k) = k_fail {
                    // no later command was started
                    if forks as usize > k + 1 {
                        violate("stage_started_after_failure", format!("stage_started_after_failure/forks={}", forks), format!("stage {} failed to start ({:?}) but {} processes were forked", k, e, forks));
                    }
                }
                // nothing of the attempt is left
                for c in sim().k.procs.values().filter(|c| matches!(c.kind, PKind::Child(_))) {
                    let i = if let PKind::Child(i) = c.kind { i } else { 0 };
                    let det = pp.stages.get(i).map(|s| s.detached).unwrap_or(false) || pp.term == Term::Communicate;
                    let is_failed_stage = c.launch_failed;
                    match c.state {
                        PState::Zombie { .. } => {
                            if !det || is_failed_stage {
                                violate("zombie_left", format!("zombie_left/detached={}/cause=pipeline_start_failed", det), format!("after the failed pipeline start stage {} (pid {}) is a zombie", i, c.pid));
                            }
                        }
                        _ => {
                            if !det {
                                violate("orphan_left", "orphan_left/owner=pipeline_start_failed".into(), format!("after the failed pipeline start stage {} (pid {}) is still running un-waited", i, c.pid));
                            }
                        }
                    }
                }
                let after: BTreeMap<i32, usize> = sim().k.proc(PARENT_PID).fds.iter().map(|(fd, e)| (*fd, e.desc)).collect();
                for (fd, d) in after.iter() {
                    if table_before.get(fd) != Some(d) {
                        let kind = match sim().k.descs[*d].kind {
                            DescKind::PipeR(_) => "pipe_read_end",
                            DescKind::PipeW(_) => "pipe_write_end",
                            DescKind::File(_) => "file",
                            _ => "other",
                        };
                        violate("fd_leak_parent", format!("fd_leak_parent/kind={}", kind), format!("after the failed pipeline start descriptor {} ({}) is still open in the parent", fd, kind));
                    }
                }
            }
        }
        kill_all_children();
        return FamOut { nontrivial };
    }
    // ---- C13: composition
    // detached (un-waited) stages get to finish before the results are judged
    let pids: Vec<i32> = sim().k.procs.values().filter(|c| matches!(c.kind, PKind::Child(_)) && c.alive()).map(|c| c.pid).collect();
    for pid in pids {
        until_gone(pid, 3_600_000_000_000);
    }
    let s = sim();
    let stage = |i: usize| s.k.child_by_spawn(i);
    // wiring by identity
    for i in 0..n {
        let c = match stage(i) {
            Some(c) => c,
            None => continue,
        };
        let fd0 = c.exec_fds.get(&0).cloned();
        let fd1 = c.exec_fds.get(&1).cloned();
        if i > 0 {
            let prev1 = stage(i - 1).and_then(|p| p.exec_fds.get(&1).cloned());
            let ok = match (prev1.map(|d| s.k.descs[d].kind), fd0.map(|d| s.k.descs[d].kind)) {
                (Some(DescKind::PipeW(a)), Some(DescKind::PipeR(b))) => a == b,
                _ => false,
            };
            if !ok {
                violate("wiring", format!("wiring/stage_link={}", i.min(3)), format!("stage {}'s stdin is not the pipe fed by stage {}'s stdout", i, i - 1));
            }
        } else if let Some(w) = want_in {
            if fd0 != Some(w) {
                violate("wiring", "wiring/pipeline_stdin".into(), "the first stage's stdin is not the configured pipeline input".into());
            }
        } else if matches!(pp.stdin, PStdin::Data | PStdin::Pipe | PStdin::Null) && fd0.is_some() && fd0 == boot[0] {
            // input was configured (data of whatever length, a pipe, the null device): the first
            // command must not be left reading the parent's own stdin
            violate("wiring", "wiring/pipeline_stdin/left_on_the_parents_stdin".into(), format!("pipeline input is {:?} ({} bytes), but the first stage reads the parent's own standard input", pp.stdin, pp.input_len));
        }
        if i == n - 1 {
            if let Some(w) = want_out {
                if fd1 != Some(w) {
                    violate("wiring", "wiring/pipeline_stdout".into(), "the last stage's stdout is not the configured pipeline output".into());
                }
            }
        }
        // nobody but stage 0 / the last stage holds the configured input / output
        for (fd, d) in c.exec_fds.iter() {
            if Some(*d) == want_in && pp.stdin == PStdin::File && (i != 0 || *fd != 0) {
                violate("wiring", "wiring/input_shared".into(), format!("stage {} holds the pipeline's input file at descriptor {}", i, fd));
            }
            if Some(*d) == want_out && pp.stdout == PStdout::File && (i != n - 1 || *fd != 1) {
                violate("wiring", "wiring/output_shared".into(), format!("stage {} holds the pipeline's output file at descriptor {}", i, fd));
            }
        }
    }
    // data
    let want = expected_output(pp, &input);
    let got: Option<Vec<u8>> = match pp.stdout {
        PStdout::Pipe => got_out.clone(),
        PStdout::File => out_file_idx.map(|i| s.k.files[i].data.clone()),
        _ => None,
    };
    let fed_all = pp.term != Term::Popen || pp.stdin != PStdin::Pipe || pp.stdout != PStdout::Pipe;
    if let (Some(g), true) = (&got, fed_all) {
        if g != &want {
            let off = g.iter().zip(want.iter()).position(|(a, b)| a != b).unwrap_or(g.len().min(want.len()));
            violate("bytes_mismatch", format!("bytes_mismatch/stream=pipeline_out/kind={}", if g.len() != want.len() { "length" } else { "content" }), format!("pipeline output differs from the stages applied in order: {} bytes vs {} expected, first difference at {}", g.len(), want.len(), off));
        }
        if want.len() > 4096 {
            nontrivial = true;
        }
    }
    // stderr sink
    let mut all_err: Vec<u8> = vec![];
    for i in 0..n {
        if let Some(c) = stage(i) {
            if let Some(d) = c.tx_data.get(&2) {
                all_err.extend_from_slice(d);
            }
        }
    }
    let sink: Option<Vec<u8>> = if pp.stderr_file { err_file_idx.map(|i| s.k.files[i].data.clone()) } else { got_err.clone() };
    if let Some(sk) = sink {
        if lines_multiset(&sk) != lines_multiset(&all_err) {
            violate("stderr_lines", format!("stderr_lines/sink={}", if pp.stderr_file { "file" } else { "capture" }), format!("the shared stderr sink holds {} lines, the stages wrote {}", lines_multiset(&sk).values().sum::<usize>(), lines_multiset(&all_err).values().sum::<usize>()));
        }
        if !all_err.is_empty() {
            nontrivial = true;
        }
    }
    // status of the last command, after all have exited
    if let Some(st) = status {
        let reaped_by_others = st == ExitStatus::Undetermined && sim().k.fcount.fired.get("foreign_reap").copied().unwrap_or(0) > 0;
        if reaped_by_others {
            sim().k.probe("status_undetermined_after_foreign_reap");
        }
        if !status_matches(st, pp.stages[n - 1].code) && !reaped_by_others {
            violate("status_not_last", format!("status_not_last/got={:?}", st), format!("returned {:?}, the last command exits with {}", st, pp.stages[n - 1].code));
        }
    }
    if matches!(pp.term, Term::Join | Term::Capture) {
        for i in 0..n {
            if pp.stages[i].detached {
                continue;
            }
            if let Some(c) = s.k.procs.values().find(|c| c.kind == PKind::Child(i)) {
                match c.state {
                    PState::Zombie { .. } => violate("zombie_left", "zombie_left/detached=false/cause=pipeline_returned".into(), format!("{:?} returned but stage {} is a zombie", pp.term, i)),
                    _ => violate("orphan_left", "orphan_left/owner=pipeline_returned".into(), format!("{:?} returned but stage {} is still running", pp.term, i)),
                }
            }
        }
    }
    crate::fam_spawn::judge_leaks();
    crate::fam_spawn::judge_release_on_std_close();
    kill_all_children();
    FamOut { nontrivial }
}

/// index of the first stage for which no process executed a program
fn first_unstarted_stage(n: usize) -> Option<usize> {
    let s = sim();
    (0..n).find(|i| s.k.child_by_spawn(*i).map(|c| c.exec.is_none()).unwrap_or(true))
}

//! Plans: everything a run does is drawn up front into an explicit,
//! serialisable value.  (The schedule is the other half: sim::Choices.)

use crate::kernel::{Cred, Disp, FaultPlan, Node};
use crate::prog::Op;
use crate::rng::Rng;
use crate::sim::Personality;
use serde::{Deserialize, Serialize};

#[derive(Serialize, Deserialize, Clone, Debug)]
pub struct Knobs {
    pub pipe_caps: Vec<usize>,
    pub cost_ns: u64,
    pub personality: Personality,
    pub pid_span: i32,
    pub sched_seed: u64,
    pub faults: FaultPlan,
    pub env_reaps: u32,
    pub env_spawns: u32,
    /// "fault_free" | "faulty"
    pub batch: String,
    #[serde(default = "default_step_cap")]
    pub step_cap: u64,
}

fn default_step_cap() -> u64 {
    3_000_000
}

#[derive(Serialize, Deserialize, Clone, Debug)]
pub struct ParentCfg {
    pub cred: Cred,
    pub sigmask: u64,
    pub sigpipe: Disp,
    /// environment of the parent process (PATH included)
    pub env: Vec<(String, String)>,
    /// PATH as raw bytes when it is not valid UTF-8 (overrides the PATH entry of `env`)
    #[serde(default)]
    pub path_raw: Option<Vec<u8>>,
    /// bit i set: the parent runs with its standard descriptor i closed (a daemon that did not
    /// reopen them): the library's own pipes then land on the numbers 0..2
    #[serde(default)]
    pub closed_std: u8,
    /// files the caller opens get the lowest free number, as open() does (so 0..2 when those are
    /// closed); otherwise they stay above 2 and the library's own descriptors get the low numbers
    #[serde(default)]
    pub files_low: bool,
    /// the parent runs with SIGTERM ignored (a supervisor that shuts down on its own terms);
    /// children inherit that across exec
    #[serde(default)]
    pub sigterm_ignored: bool,
    /// bit i set: the parent's own standard stream i is in non-blocking mode (an event-loop program)
    #[serde(default)]
    pub nonblock_std: u8,
    /// the parent's environment block holds entries std::env cannot express: a name twice and
    /// an entry without '=' (what a careless execve() by the parent's own parent leaves behind)
    #[serde(default)]
    pub env_odd: bool,
}

#[derive(Serialize, Deserialize, Clone, Debug)]
pub struct FsEntry {
    pub path: String,
    pub node: Node,
    /// the path as raw bytes when it is not valid UTF-8 (overrides `path`)
    #[serde(default)]
    pub raw: Option<Vec<u8>>,
}

impl FsEntry {
    pub fn bytes(&self) -> Vec<u8> {
        self.raw.clone().unwrap_or_else(|| self.path.as_bytes().to_vec())
    }
}

#[derive(Serialize, Deserialize, Clone, Debug)]
pub struct Plan {
    pub prop: String,
    pub seed: u64,
    pub knobs: Knobs,
    pub parent: ParentCfg,
    pub fs: Vec<FsEntry>,
    pub programs: Vec<Vec<Op>>,
    pub body: Body,
}

#[derive(Serialize, Deserialize, Clone, Debug)]
pub enum Body {
    Comm(crate::fam_comm::CommPlan),
    Status(crate::fam_status::StatusPlan),
    Spawn(crate::fam_spawn::SpawnPlan),
    Drop(crate::fam_drop::DropPlan),
    Pipe(crate::fam_pipe::PipePlan),
    Builder(crate::fam_builder::BuilderPlan),
}

pub const CAPS: [usize; 4] = [4096, 8192, 65536, 1 << 20];

/// thorough tier: generators may draw deeper (bigger data, longer virtual waits)
pub static THOROUGH: std::sync::atomic::AtomicBool = std::sync::atomic::AtomicBool::new(false);

pub fn thorough() -> bool {
    THOROUGH.load(std::sync::atomic::Ordering::Relaxed)
}

pub fn gen_knobs(rng: &mut Rng) -> Knobs {
    let ncap = 1 + rng.below(4) as usize;
    let caps = (0..ncap).map(|_| *rng.pick(&CAPS)).collect();
    let cost = *rng.pick(&[200u64, 2_000, 20_000, 200_000]);
    let personality = *rng.pick(&[Personality::ParentGreedy, Personality::ChildGreedy, Personality::Uniform, Personality::Bursty, Personality::ChildGreedy]);
    Knobs {
        pipe_caps: caps,
        cost_ns: cost,
        personality,
        pid_span: 8 + rng.below(24) as i32,
        sched_seed: rng.next(),
        faults: FaultPlan::default(),
        env_reaps: 0,
        env_spawns: 0,
        batch: "fault_free".into(),
        step_cap: default_step_cap(),
    }
}

pub fn default_parent() -> ParentCfg {
    ParentCfg {
        cred: Cred::root(),
        sigmask: 0,
        sigpipe: Disp::Ignore,
        env: vec![("PATH".into(), "/bin".into()), ("HOME".into(), "/work".into()), ("LANG".into(), "C".into())],
        path_raw: None,
        closed_std: 0,
        files_low: false,
        sigterm_ignored: false,
        nonblock_std: 0,
        env_odd: false,
    }
}

/// Interesting sizes around a pipe capacity.
pub fn gen_len(rng: &mut Rng, cap: usize, big_ok: bool) -> usize {
    match rng.below(if big_ok { 12 } else { 10 }) {
        0 => 0,
        1 => 1,
        2 => cap - 1,
        3 => cap,
        4 => cap + 1,
        5 => 2 * cap + 3,
        6 => rng.range(2, 300) as usize,
        7 => rng.range(300, 5000) as usize,
        8 => 4096 * rng.range(1, 8) as usize,
        9 => rng.range(5000, 70_000) as usize,
        10 => rng.range(70_000, 600_000) as usize,
        _ => rng.range(600_000, if thorough() { 8 << 20 } else { 4 << 20 }) as usize,
    }
}

pub fn gen_chunk(rng: &mut Rng, cap: usize) -> usize {
    match rng.below(9) {
        0 => 1,
        1 => 7,
        2 => 4095,
        3 => 4096,
        4 => 4097,
        5 => cap,
        6 => 100_000,
        7 => rng.range(2, 512) as usize,
        _ => rng.range(512, 20_000) as usize,
    }
}

pub fn gen_plan(prop: &str, base_seed: u64, index: u64) -> Plan {
    let seed = crate::rng::mix(&[base_seed, crate::rng::hash_str(prop), index]);
    let mut rng = Rng::new(seed);
    let knobs = gen_knobs(&mut rng);
    let mut plan = Plan { prop: prop.to_string(), seed, knobs, parent: default_parent(), fs: vec![], programs: vec![], body: Body::Comm(Default::default()) };
    match prop {
        "C01" | "C02" | "C03" | "C04" => crate::fam_comm::generate(prop, &mut rng, &mut plan, index),
        "C09" | "C10" | "C11" => crate::fam_status::generate(prop, &mut rng, &mut plan, index),
        "C08" if index % 2 == 1 => crate::fam_pipe::generate(prop, &mut rng, &mut plan, index),
        // C17 and C18 quantify over every child, also the stages of pipelines
        "C17" if index % 4 == 3 => crate::fam_pipe::generate(prop, &mut rng, &mut plan, index),
        "C18" if index % 3 == 2 => {
            crate::fam_spawn::gen_signal_state(&mut rng, &mut plan);
            crate::fam_pipe::generate(prop, &mut rng, &mut plan, index)
        }
        "C05" | "C06" | "C07" | "C08" | "C15" | "C17" | "C18" => crate::fam_spawn::generate(prop, &mut rng, &mut plan, index),
        "C12" => crate::fam_drop::generate(&mut rng, &mut plan, index),
        "C16" => crate::fam_builder::generate(&mut rng, &mut plan, index),
        "C13" | "C14" => crate::fam_pipe::generate(prop, &mut rng, &mut plan, index),
        _ => panic!("no generator for property {}", prop),
    }
    // the parent's environment differs from run to run: whatever the library remembers of it
    // from an earlier call (a process-wide snapshot, say) is stale in the next run of the worker
    plan.parent.env.push(("SUBSIM_RUN".into(), format!("{:016x}", seed)));
    plan
}

impl ParentCfg {
    /// the parent's PATH as the library will see it
    pub fn path_bytes(&self) -> Option<Vec<u8>> {
        if let Some(r) = &self.path_raw {
            return Some(r.clone());
        }
        self.env.iter().find(|(k, _)| k == "PATH").map(|(_, v)| v.as_bytes().to_vec())
    }
}

impl Plan {
    /// register program `ops` under /bin/<name>; returns the program id
    pub fn add_program(&mut self, name: &str, ops: Vec<Op>) -> usize {
        self.programs.push(ops);
        let id = self.programs.len() - 1;
        self.fs.push(FsEntry { path: format!("/bin/{}", name), node: Node::Exe { prog: id }, raw: None });
        id
    }
}

//! Family-specific shrink candidates.

use crate::fam_comm::*;
use crate::plan::*;

pub fn body_candidates(plan: &Plan) -> Vec<Plan> {
    let mut out = vec![];
    match &plan.body {
        Body::Comm(c) => {
            let mut push = |f: &dyn Fn(&mut CommPlan)| {
                let mut p = plan.clone();
                if let Body::Comm(ref mut cc) = p.body {
                    f(cc);
                }
                out.push(p);
            };
            for l in [0usize, 1, c.input_len / 2, c.input_len.saturating_sub(1)] {
                if l < c.input_len {
                    push(&move |cc| cc.input_len = l);
                }
            }
            for i in 0..c.reads.len() {
                push(&move |cc| {
                    cc.reads.remove(i);
                });
                if c.reads[i].size.is_some() {
                    push(&move |cc| cc.reads[i].size = None);
                }
                if c.reads[i].time_ns.is_some() {
                    push(&move |cc| cc.reads[i].time_ns = None);
                    let t = c.reads[i].time_ns.unwrap();
                    if t > 1_000_000 {
                        push(&move |cc| cc.reads[i].time_ns = Some(t / 2));
                    }
                }
            }
            if c.stderr != StreamCfg::Inherit && c.stdout == StreamCfg::Pipe {
                push(&|cc| cc.stderr = StreamCfg::Inherit);
            }
            if c.stdin != StreamCfg::Inherit && c.stdin != StreamCfg::Pipe {
                push(&|cc| cc.stdin = StreamCfg::Inherit);
            }
        }
        Body::Status(c) => {
            use crate::fam_status::*;
            let mut push = |f: &dyn Fn(&mut StatusPlan)| {
                let mut p = plan.clone();
                if let Body::Status(ref mut cc) = p.body {
                    f(cc);
                }
                out.push(p);
            };
            for i in 0..c.ops.len() {
                push(&move |cc| {
                    cc.ops.remove(i);
                });
                match c.ops[i] {
                    StatusOp::WaitTimeout(d) if d > 0 => {
                        push(&move |cc| cc.ops[i] = StatusOp::WaitTimeout(d / 2));
                        push(&move |cc| cc.ops[i] = StatusOp::WaitTimeout(0));
                    }
                    StatusOp::Advance(d) if d > 0 => {
                        push(&move |cc| cc.ops[i] = StatusOp::Advance(d / 2));
                    }
                    _ => {}
                }
            }
            if c.detached {
                push(&|cc| cc.detached = false);
            }
        }
        Body::Spawn(c) => {
            use crate::fam_spawn::*;
            let mut push = |f: &dyn Fn(&mut SpawnPlan)| {
                let mut p = plan.clone();
                if let Body::Spawn(ref mut cc) = p.body {
                    f(cc);
                }
                out.push(p);
            };
            for i in 0..c.spawns.len() {
                if c.spawns.len() > 1 {
                    push(&move |cc| {
                        cc.spawns.remove(i);
                    });
                }
                let sp = &c.spawns[i];
                if sp.argv.len() > 1 {
                    push(&move |cc| cc.spawns[i].argv.truncate(1));
                    push(&move |cc| {
                        cc.spawns[i].argv.pop();
                    });
                }
                if sp.env.is_some() {
                    push(&move |cc| cc.spawns[i].env = None);
                    if sp.env.as_ref().unwrap().len() > 1 {
                        push(&move |cc| {
                            cc.spawns[i].env.as_mut().unwrap().pop();
                        });
                        push(&move |cc| {
                            cc.spawns[i].env.as_mut().unwrap().remove(0);
                        });
                    }
                }
                if sp.cwd.is_some() {
                    push(&move |cc| cc.spawns[i].cwd = None);
                }
                if sp.setuid.is_some() {
                    push(&move |cc| cc.spawns[i].setuid = None);
                }
                if sp.setgid.is_some() {
                    push(&move |cc| cc.spawns[i].setgid = None);
                }
                if sp.setpgid {
                    push(&move |cc| cc.spawns[i].setpgid = false);
                }
                if sp.detached {
                    push(&move |cc| cc.spawns[i].detached = false);
                }
                if sp.keep {
                    push(&move |cc| cc.spawns[i].keep = false);
                }
                if sp.via_exec {
                    push(&move |cc| cc.spawns[i].via_exec = false);
                }
                if sp.stdin != RedirSpec::None {
                    push(&move |cc| cc.spawns[i].stdin = RedirSpec::None);
                }
                if sp.stdout != RedirSpec::None {
                    push(&move |cc| cc.spawns[i].stdout = RedirSpec::None);
                }
                if sp.stderr != RedirSpec::None {
                    push(&move |cc| cc.spawns[i].stderr = RedirSpec::None);
                }
                for (j, a) in sp.argv.iter().enumerate() {
                    if j > 0 && a.len() > 1 {
                        push(&move |cc| cc.spawns[i].argv[j].truncate(1));
                    }
                }
            }
        }
        Body::Drop(c) => {
            use crate::fam_drop::*;
            let mut push = |f: &dyn Fn(&mut DropPlan)| {
                let mut p = plan.clone();
                if let Body::Drop(ref mut cc) = p.body {
                    f(cc);
                }
                out.push(p);
            };
            if c.detached {
                push(&|cc| cc.detached = false);
            }
            if c.consume != Some(0) {
                push(&|cc| cc.consume = Some(0));
            }
            if c.input_len > 0 {
                let l = c.input_len;
                push(&move |cc| cc.input_len = l / 2);
                push(&|cc| cc.input_len = 0);
            }
            for i in 0..3 {
                if c.pipes[i] {
                    push(&move |cc| cc.pipes[i] = false);
                }
            }
        }
        Body::Pipe(c) => {
            use crate::fam_pipe::*;
            let mut push = |f: &dyn Fn(&mut PipePlan)| {
                let mut p = plan.clone();
                if let Body::Pipe(ref mut cc) = p.body {
                    f(cc);
                }
                out.push(p);
            };
            if c.stages.len() > 2 {
                for i in 0..c.stages.len() {
                    if c.missing_stage.map(|m| m != i).unwrap_or(true) {
                        push(&move |cc| {
                            cc.stages.remove(i);
                            if let Some(m) = cc.missing_stage {
                                if m > i {
                                    cc.missing_stage = Some(m - 1);
                                }
                            }
                        });
                    }
                }
            }
            if c.shape != Shape::Chain {
                push(&|cc| cc.shape = Shape::Chain);
            }
            if c.stderr_file {
                push(&|cc| cc.stderr_file = false);
            }
            for l in [0usize, 1, c.input_len / 2] {
                if l < c.input_len {
                    push(&move |cc| cc.input_len = l);
                }
            }
            for l in [0usize, 1, c.source_len / 2] {
                if l < c.source_len {
                    push(&move |cc| cc.source_len = l);
                }
            }
            for i in 0..c.stages.len() {
                if c.stages[i].detached {
                    push(&move |cc| cc.stages[i].detached = false);
                }
            }
        }
        Body::Builder(c) => {
            use crate::fam_builder::*;
            let mut push = |f: &dyn Fn(&mut BuilderPlan)| {
                let mut p = plan.clone();
                if let Body::Builder(ref mut cc) = p.body {
                    f(cc);
                }
                out.push(p);
            };
            for i in 0..c.calls.len() {
                push(&move |cc| {
                    cc.calls.remove(i);
                });
            }
            for i in 0..c.clone_calls.len() {
                push(&move |cc| {
                    cc.clone_calls.remove(i);
                });
            }
            if c.shell.is_some() {
                push(&|cc| cc.shell = None);
            }
            if c.term != BTerm::Popen {
                push(&|cc| cc.term = BTerm::Popen);
            }
        }
    }
    out
}

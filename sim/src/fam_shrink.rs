//! Family-specific shrink candidates.

use crate::fam_comm::*;
use crate::plan::*;

pub fn body_candidates(plan: &Plan) -> Vec<Plan> {
    let mut out = vec![];
    match &plan.body {
        Body::Comm(c) => {
            let mut push = |f: &dyn Fn(&mut CommPlan)| {
                let mut p = plan.clone();
                if let Body::Comm(ref mut cc) = p.body {
                    f(cc);
                }
                out.push(p);
            };
            for l in [0usize, 1, c.input_len / 2, c.input_len.saturating_sub(1)] {
                if l < c.input_len {
                    push(&move |cc| cc.input_len = l);
                }
            }
            for i in 0..c.reads.len() {
                push(&move |cc| {
                    cc.reads.remove(i);
                });
                if c.reads[i].size.is_some() {
                    push(&move |cc| cc.reads[i].size = None);
                }
                if c.reads[i].time_ns.is_some() {
                    push(&move |cc| cc.reads[i].time_ns = None);
                    let t = c.reads[i].time_ns.unwrap();
                    if t > 1_000_000 {
                        push(&move |cc| cc.reads[i].time_ns = Some(t / 2));
                    }
                }
            }
            if c.stderr != StreamCfg::Inherit && c.stdout == StreamCfg::Pipe {
                push(&|cc| cc.stderr = StreamCfg::Inherit);
            }
            if c.stdin != StreamCfg::Inherit && c.stdin != StreamCfg::Pipe {
                push(&|cc| cc.stdin = StreamCfg::Inherit);
            }
        }
    }
    out
}

//! Extracts the thread-based (cfg(windows)) communicator from the library's
//! communicate.rs so that it can be compiled on Linux against simrt's
//! channel/thread (DESIGN §2.7).  Any failure here is a build error.

use std::path::PathBuf;

fn main() {
    let manifest_dir = PathBuf::from(std::env::var("CARGO_MANIFEST_DIR").unwrap());
    let manifest = std::fs::read_to_string(manifest_dir.join("Cargo.toml")).unwrap();
    // subprocess = { path = "..." }
    let repo = manifest
        .lines()
        .find(|l| l.trim_start().starts_with("subprocess"))
        .and_then(|l| l.find("path").map(|i| &l[i + 4..]))
        .and_then(|r| r.split('"').nth(1))
        .expect("cannot find the path of the subprocess dependency")
        .to_string();
    let src = PathBuf::from(&repo).join("src/communicate.rs");
    println!("cargo:rerun-if-changed={}", src.display());
    println!("cargo:rerun-if-changed=build.rs");
    let text = std::fs::read_to_string(&src).expect("cannot read communicate.rs");

    // 1. drop the `#[cfg(unix)] mod raw { ... }` block
    let unix_marker = "#[cfg(unix)]\nmod raw {";
    let start = text.find(unix_marker).expect("commT extraction: `#[cfg(unix)] mod raw {` not found");
    let body_start = start + unix_marker.len();
    let mut depth = 1usize;
    let mut end = body_start;
    for (i, ch) in text[body_start..].char_indices() {
        match ch {
            '{' => depth += 1,
            '}' => {
                depth -= 1;
                if depth == 0 {
                    end = body_start + i + 1;
                    break;
                }
            }
            _ => {}
        }
    }
    assert!(depth == 0, "commT extraction: unbalanced braces in the unix module");
    let mut out = String::new();
    out.push_str(&text[..start]);
    out.push_str(&text[end..]);
    // 2. ungate the windows variant
    let win_marker = "#[cfg(windows)]\nmod raw {";
    assert!(out.contains(win_marker), "commT extraction: `#[cfg(windows)] mod raw {{` not found");
    out = out.replacen(win_marker, "mod raw {", 1);
    // 3. std's channel and thread -> simrt's (scheduler-aware, virtual clock)
    for (from, to) in [("use std::sync::mpsc::", "use crate::simrt::mpsc::"), ("use std::thread;", "use crate::simrt::thread;")] {
        assert!(out.contains(from), "commT extraction: `{}` not found", from);
        out = out.replace(from, to);
    }
    let dest = PathBuf::from(std::env::var("OUT_DIR").unwrap()).join("commt.rs");
    std::fs::write(dest, out).unwrap();
}
